#!/bin/sh
# Builds the harness-side artefacts only (stand-in runtimes, Lua host). Everything that
# depends on /repo is rebuilt by ./check from /repo's working tree on every run.
set -e
cd "$(dirname "$0")"
export GOFLAGS=-mod=mod GOPROXY=off CARGO_NET_OFFLINE=true
mkdir -p build evidence
if [ -x runtimes/build.sh ]; then
  runtimes/build.sh
fi
# warm the Go build cache for the harness and the tool (not required for correctness)
(cd harness && go test -c -vet=off -o /dev/null ./props) >/dev/null 2>&1 || true
echo setup-ok
