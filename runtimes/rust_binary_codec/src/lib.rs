use bytes::{Buf, BufMut, Bytes, BytesMut};
use std::collections::HashMap;
use std::sync::{Arc, RwLock};

pub trait BinaryCodec: Sized {
    fn encode(&self, buf: &mut BytesMut);
    fn decode(buf: &mut Bytes) -> Option<Self>;
}

pub trait Prim: Sized + Copy {
    const SIZE: usize;
    fn put_be(self, buf: &mut BytesMut);
    fn put_le(self, buf: &mut BytesMut);
    fn get_be(buf: &mut Bytes) -> Self;
    fn get_le(buf: &mut Bytes) -> Self;
    fn from_usize(n: usize) -> Self;
    fn to_usize(self) -> usize;
}
macro_rules! prim {
    ($t:ty, $n:expr, $pb:ident, $pl:ident, $gb:ident, $gl:ident) => {
        impl Prim for $t {
            const SIZE: usize = $n;
            fn put_be(self, buf: &mut BytesMut) { buf.$pb(self) }
            fn put_le(self, buf: &mut BytesMut) { buf.$pl(self) }
            fn get_be(buf: &mut Bytes) -> Self { buf.$gb() }
            fn get_le(buf: &mut Bytes) -> Self { buf.$gl() }
            fn from_usize(n: usize) -> Self { n as $t }
            fn to_usize(self) -> usize { self as usize }
        }
    };
}
prim!(u8, 1, put_u8, put_u8, get_u8, get_u8);
prim!(i8, 1, put_i8, put_i8, get_i8, get_i8);
prim!(u16, 2, put_u16, put_u16_le, get_u16, get_u16_le);
prim!(i16, 2, put_i16, put_i16_le, get_i16, get_i16_le);
prim!(u32, 4, put_u32, put_u32_le, get_u32, get_u32_le);
prim!(i32, 4, put_i32, put_i32_le, get_i32, get_i32_le);
prim!(u64, 8, put_u64, put_u64_le, get_u64, get_u64_le);
prim!(i64, 8, put_i64, put_i64_le, get_i64, get_i64_le);
prim!(f32, 4, put_f32, put_f32_le, get_f32, get_f32_le);
prim!(f64, 8, put_f64, put_f64_le, get_f64, get_f64_le);

fn need(buf: &Bytes, n: usize) -> Option<()> { if buf.remaining() >= n { Some(()) } else { None } }
fn get_len<L: Prim>(buf: &mut Bytes, le: bool) -> Option<usize> { need(buf, L::SIZE)?; Some(if le { L::get_le(buf) } else { L::get_be(buf) }.to_usize()) }
fn put_len<L: Prim>(buf: &mut BytesMut, n: usize, le: bool) { if le { L::from_usize(n).put_le(buf) } else { L::from_usize(n).put_be(buf) } }

pub fn put_list<T: Prim, L: Prim>(buf: &mut BytesMut, v: &Vec<T>) { put_len::<L>(buf, v.len(), false); for x in v { x.put_be(buf) } }
pub fn put_list_le<T: Prim, L: Prim>(buf: &mut BytesMut, v: &Vec<T>) { put_len::<L>(buf, v.len(), true); for x in v { x.put_le(buf) } }
pub fn get_list<T: Prim, L: Prim>(buf: &mut Bytes) -> Option<Vec<T>> { let n = get_len::<L>(buf, false)?; let mut v = Vec::new(); for _ in 0..n { need(buf, T::SIZE)?; v.push(T::get_be(buf)) } Some(v) }
pub fn get_list_le<T: Prim, L: Prim>(buf: &mut Bytes) -> Option<Vec<T>> { let n = get_len::<L>(buf, true)?; let mut v = Vec::new(); for _ in 0..n { need(buf, T::SIZE)?; v.push(T::get_le(buf)) } Some(v) }

fn put_str<L: Prim>(buf: &mut BytesMut, s: &str, le: bool) { put_len::<L>(buf, s.len(), le); buf.put_slice(s.as_bytes()) }
fn get_str<L: Prim>(buf: &mut Bytes, le: bool) -> Option<String> { let n = get_len::<L>(buf, le)?; need(buf, n)?; let b = buf.split_to(n); String::from_utf8(b.to_vec()).ok() }
pub fn put_string<L: Prim>(buf: &mut BytesMut, s: &String) { put_str::<L>(buf, s, false) }
pub fn put_string_le<L: Prim>(buf: &mut BytesMut, s: &String) { put_str::<L>(buf, s, true) }
pub fn get_string<L: Prim>(buf: &mut Bytes) -> Option<String> { get_str::<L>(buf, false) }
pub fn get_string_le<L: Prim>(buf: &mut Bytes) -> Option<String> { get_str::<L>(buf, true) }
pub fn put_string_list<L: Prim, S: Prim>(buf: &mut BytesMut, v: &Vec<String>) { put_len::<L>(buf, v.len(), false); for s in v { put_str::<S>(buf, s, false) } }
pub fn put_string_list_le<L: Prim, S: Prim>(buf: &mut BytesMut, v: &Vec<String>) { put_len::<L>(buf, v.len(), true); for s in v { put_str::<S>(buf, s, true) } }
pub fn get_string_list<L: Prim, S: Prim>(buf: &mut Bytes) -> Option<Vec<String>> { let n = get_len::<L>(buf, false)?; let mut v = Vec::new(); for _ in 0..n { v.push(get_str::<S>(buf, false)?) } Some(v) }
pub fn get_string_list_le<L: Prim, S: Prim>(buf: &mut Bytes) -> Option<Vec<String>> { let n = get_len::<L>(buf, true)?; let mut v = Vec::new(); for _ in 0..n { v.push(get_str::<S>(buf, true)?) } Some(v) }

pub fn put_char_array_with_pad_char(buf: &mut BytesMut, s: &String, n: usize, pad: char, left: bool) {
    let b = s.as_bytes(); let k = n.saturating_sub(b.len());
    if left { for _ in 0..k { buf.put_u8(pad as u8) } buf.put_slice(&b[..b.len().min(n)]) } else { buf.put_slice(&b[..b.len().min(n)]); for _ in 0..k { buf.put_u8(pad as u8) } }
}
pub fn put_char_array(buf: &mut BytesMut, s: &String, n: usize) { put_char_array_with_pad_char(buf, s, n, ' ', false) }
pub fn get_char_array_trim_pad_char(buf: &mut Bytes, n: usize, pad: char, left: bool) -> Option<String> {
    need(buf, n)?; let b = buf.split_to(n); let s = String::from_utf8(b.to_vec()).ok()?;
    Some(if left { s.trim_start_matches(pad).to_string() } else { s.trim_end_matches(pad).to_string() })
}
pub fn get_char_array(buf: &mut Bytes, n: usize) -> Option<String> { get_char_array_trim_pad_char(buf, n, ' ', false) }
pub fn put_fixed_string_list_with_pad_char<L: Prim>(buf: &mut BytesMut, v: &Vec<String>, n: usize, pad: char, left: bool) { put_len::<L>(buf, v.len(), false); for s in v { put_char_array_with_pad_char(buf, s, n, pad, left) } }
pub fn put_fixed_string_list_with_pad_char_le<L: Prim>(buf: &mut BytesMut, v: &Vec<String>, n: usize, pad: char, left: bool) { put_len::<L>(buf, v.len(), true); for s in v { put_char_array_with_pad_char(buf, s, n, pad, left) } }
pub fn put_fixed_string_list<L: Prim>(buf: &mut BytesMut, v: &Vec<String>, n: usize) { put_fixed_string_list_with_pad_char::<L>(buf, v, n, ' ', false) }
pub fn put_fixed_string_list_le<L: Prim>(buf: &mut BytesMut, v: &Vec<String>, n: usize) { put_fixed_string_list_with_pad_char_le::<L>(buf, v, n, ' ', false) }
fn get_fsl<L: Prim>(buf: &mut Bytes, n: usize, pad: char, left: bool, le: bool) -> Option<Vec<String>> { let c = get_len::<L>(buf, le)?; let mut v = Vec::new(); for _ in 0..c { v.push(get_char_array_trim_pad_char(buf, n, pad, left)?) } Some(v) }
pub fn get_fixed_string_list_trim_pad_char<L: Prim>(buf: &mut Bytes, n: usize, pad: char, left: bool) -> Option<Vec<String>> { get_fsl::<L>(buf, n, pad, left, false) }
pub fn get_fixed_string_list_trim_pad_char_le<L: Prim>(buf: &mut Bytes, n: usize, pad: char, left: bool) -> Option<Vec<String>> { get_fsl::<L>(buf, n, pad, left, true) }
pub fn get_fixed_string_list<L: Prim>(buf: &mut Bytes, n: usize) -> Option<Vec<String>> { get_fsl::<L>(buf, n, ' ', false, false) }
pub fn get_fixed_string_list_le<L: Prim>(buf: &mut Bytes, n: usize) -> Option<Vec<String>> { get_fsl::<L>(buf, n, ' ', false, true) }

pub fn put_object_list<T: BinaryCodec, L: Prim>(buf: &mut BytesMut, v: &Vec<T>) { put_len::<L>(buf, v.len(), false); for x in v { x.encode(buf) } }
pub fn put_object_list_le<T: BinaryCodec, L: Prim>(buf: &mut BytesMut, v: &Vec<T>) { put_len::<L>(buf, v.len(), true); for x in v { x.encode(buf) } }
pub fn get_object_list<T: BinaryCodec, L: Prim>(buf: &mut Bytes) -> Option<Vec<T>> { let n = get_len::<L>(buf, false)?; let mut v = Vec::new(); for _ in 0..n { v.push(T::decode(buf)?) } Some(v) }
pub fn get_object_list_le<T: BinaryCodec, L: Prim>(buf: &mut Bytes) -> Option<Vec<T>> { let n = get_len::<L>(buf, true)?; let mut v = Vec::new(); for _ in 0..n { v.push(T::decode(buf)?) } Some(v) }

pub fn put_char(buf: &mut BytesMut, c: char) { buf.put_u8(c as u8) }
pub fn get_char(buf: &mut Bytes) -> Option<char> { need(buf, 1)?; Some(buf.get_u8() as char) }
pub fn put_char_list<L: Prim>(buf: &mut BytesMut, v: &Vec<char>) { put_len::<L>(buf, v.len(), false); for c in v { buf.put_u8(*c as u8) } }
pub fn get_char_list<L: Prim>(buf: &mut Bytes) -> Option<Vec<char>> { let n = get_len::<L>(buf, false)?; need(buf, n)?; Some((0..n).map(|_| buf.get_u8() as char).collect()) }

#[derive(Debug, Clone, PartialEq)]
pub enum Checksum { U8(u8), U16(u16), U32(u32), U64(u64), I8(i8), I16(i16), I32(i32), I64(i64) }
pub trait ChecksumService: Send + Sync { fn calc(&self, buf: &BytesMut) -> Checksum; }
pub struct ChecksumServiceContext { m: RwLock<HashMap<String, Arc<dyn ChecksumService>>> }
impl ChecksumServiceContext {
    pub fn get(&self, name: &str) -> Option<Arc<dyn ChecksumService>> { self.m.read().unwrap().get(name).cloned() }
    pub fn register(&self, name: &str, s: Arc<dyn ChecksumService>) { self.m.write().unwrap().insert(name.to_string(), s); }
    pub fn clear(&self) { self.m.write().unwrap().clear() }
}
pub static CHECKSUM_SERVICE_CONTEXT: std::sync::LazyLock<ChecksumServiceContext> = std::sync::LazyLock::new(|| ChecksumServiceContext { m: RwLock::new(HashMap::new()) });
