#pragma once
#include <functional>
#include <map>
#include <memory>
#include <string>
template <class B, class T> struct ChecksumService { virtual ~ChecksumService() = default; virtual T calc(const B&) const = 0; };
class ChecksumServiceContext { std::map<std::string, std::function<uint64_t(const std::vector<uint8_t>&)>> m_;
 public: static ChecksumServiceContext& instance() { static ChecksumServiceContext c; return c; }
  void reg(const std::string& n, std::function<uint64_t(const std::vector<uint8_t>&)> f) { m_[n] = f; } void clear() { m_.clear(); }
  template <class B, class T> std::shared_ptr<ChecksumService<B, T>> get(const std::string& n) { auto it = m_.find(n); if (it == m_.end()) return nullptr; auto f = it->second;
    struct S : ChecksumService<B, T> { std::function<uint64_t(const std::vector<uint8_t>&)> f; T calc(const B& b) const override { return (T)f(b.data()); } }; auto s = std::make_shared<S>(); s->f = f; return s; } };
