#pragma once
#include <sstream>
#include <string>
#include <vector>
#include <memory>
#include "include/bytebuf.hpp"
namespace codec {
struct BinaryCodec { virtual ~BinaryCodec() = default; virtual void encode(ByteBuf&) const = 0; virtual void decode(ByteBuf&) = 0;
  virtual bool equals(const BinaryCodec&) const = 0; virtual std::string toString() const = 0; };
inline bool operator==(const BinaryCodec& a, const BinaryCodec& b) { return a.equals(b); }
template <class T> void wr(ByteBuf& b, T v, bool le);
#define WR(T, N) template <> inline void wr<T>(ByteBuf& b, T v, bool le) { if (le) b.write_##N##_le(v); else b.write_##N(v); }
WR(uint8_t,u8) WR(int8_t,i8) WR(uint16_t,u16) WR(int16_t,i16) WR(uint32_t,u32) WR(int32_t,i32) WR(uint64_t,u64) WR(int64_t,i64) WR(float,f32) WR(double,f64)
#undef WR
template <class T> T rd(ByteBuf& b, bool le);
#define RD(T, N) template <> inline T rd<T>(ByteBuf& b, bool le) { return le ? b.read_##N##_le() : b.read_##N(); }
RD(uint8_t,u8) RD(int8_t,i8) RD(uint16_t,u16) RD(int16_t,i16) RD(uint32_t,u32) RD(int32_t,i32) RD(uint64_t,u64) RD(int64_t,i64) RD(float,f32) RD(double,f64)
#undef RD
template <class L, class T> void write_basic_type(ByteBuf& b, const std::vector<T>& v) { wr<L>(b, (L)v.size(), false); for (auto x : v) wr<T>(b, x, false); }
template <class L, class T> void write_basic_type_le(ByteBuf& b, const std::vector<T>& v) { wr<L>(b, (L)v.size(), true); for (auto x : v) wr<T>(b, x, true); }
template <class L, class T> std::vector<T> read_basic_type(ByteBuf& b) { auto n = rd<L>(b, false); std::vector<T> v; for (L i = 0; i < n; i++) v.push_back(rd<T>(b, false)); return v; }
template <class L, class T> std::vector<T> read_basic_type_le(ByteBuf& b) { auto n = rd<L>(b, true); std::vector<T> v; for (L i = 0; i < n; i++) v.push_back(rd<T>(b, true)); return v; }
inline void write_fixed_string(ByteBuf& b, const std::string& s, size_t n, char pad = ' ', bool left = false) { if (s.size() > n) throw std::length_error("fixed string"); std::string p(n - s.size(), pad); std::string o = left ? p + s : s + p; b.write_bytes(o.data(), n); }
inline std::string read_fixed_string(ByteBuf& b, size_t n, char pad = ' ', bool left = false) { std::string s = b.read_bytes(n); if (left) { size_t i = 0; while (i < s.size() && s[i] == pad) i++; return s.substr(i); } size_t e = s.size(); while (e > 0 && s[e - 1] == pad) e--; return s.substr(0, e); }
template <class L> void write_fixed_string_list(ByteBuf& b, const std::vector<std::string>& v, size_t n, char pad = ' ', bool left = false) { wr<L>(b, (L)v.size(), false); for (auto& s : v) write_fixed_string(b, s, n, pad, left); }
template <class L> void write_fixed_string_list_le(ByteBuf& b, const std::vector<std::string>& v, size_t n, char pad = ' ', bool left = false) { wr<L>(b, (L)v.size(), true); for (auto& s : v) write_fixed_string(b, s, n, pad, left); }
template <class L> std::vector<std::string> read_fixed_string_list(ByteBuf& b, size_t n, char pad = ' ', bool left = false) { auto c = rd<L>(b, false); std::vector<std::string> v; for (L i = 0; i < c; i++) v.push_back(read_fixed_string(b, n, pad, left)); return v; }
template <class L> std::vector<std::string> read_fixed_string_list_le(ByteBuf& b, size_t n, char pad = ' ', bool left = false) { auto c = rd<L>(b, true); std::vector<std::string> v; for (L i = 0; i < c; i++) v.push_back(read_fixed_string(b, n, pad, left)); return v; }
template <class S> void write_string(ByteBuf& b, const std::string& s) { wr<S>(b, (S)s.size(), false); b.write_bytes(s.data(), s.size()); }
template <class S> void write_string_le(ByteBuf& b, const std::string& s) { wr<S>(b, (S)s.size(), true); b.write_bytes(s.data(), s.size()); }
template <class S> std::string read_string(ByteBuf& b) { auto n = rd<S>(b, false); return b.read_bytes(n); }
template <class S> std::string read_string_le(ByteBuf& b) { auto n = rd<S>(b, true); return b.read_bytes(n); }
template <class L, class S> void write_string_list(ByteBuf& b, const std::vector<std::string>& v) { wr<L>(b, (L)v.size(), false); for (auto& s : v) write_string<S>(b, s); }
template <class L, class S> void write_string_list_le(ByteBuf& b, const std::vector<std::string>& v) { wr<L>(b, (L)v.size(), true); for (auto& s : v) write_string_le<S>(b, s); }
template <class L, class S> std::vector<std::string> read_string_list(ByteBuf& b) { auto n = rd<L>(b, false); std::vector<std::string> v; for (L i = 0; i < n; i++) v.push_back(read_string<S>(b)); return v; }
template <class L, class S> std::vector<std::string> read_string_list_le(ByteBuf& b) { auto n = rd<L>(b, true); std::vector<std::string> v; for (L i = 0; i < n; i++) v.push_back(read_string_le<S>(b)); return v; }
template <class L, class T> void write_object_List(ByteBuf& b, const std::vector<T>& v) { wr<L>(b, (L)v.size(), false); for (auto& x : v) x.encode(b); }
template <class L, class T> void write_object_List_le(ByteBuf& b, const std::vector<T>& v) { wr<L>(b, (L)v.size(), true); for (auto& x : v) x.encode(b); }
template <class L, class T> std::vector<T> read_object_List(ByteBuf& b) { auto n = rd<L>(b, false); std::vector<T> v; for (L i = 0; i < n; i++) { T x; x.decode(b); v.push_back(std::move(x)); } return v; }
template <class L, class T> std::vector<T> read_object_List_le(ByteBuf& b) { auto n = rd<L>(b, true); std::vector<T> v; for (L i = 0; i < n; i++) { T x; x.decode(b); v.push_back(std::move(x)); } return v; }
template <class T> std::string join_vector(const std::vector<T>& v) { std::ostringstream o; o << "["; for (size_t i = 0; i < v.size(); i++) { if (i) o << ", "; if constexpr (sizeof(T) == 1 && std::is_integral<T>::value) o << (int)v[i]; else o << v[i]; } o << "]"; return o.str(); }
}  // namespace codec
