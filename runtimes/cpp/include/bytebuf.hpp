#pragma once
#include <cstdint>
#include <cstring>
#include <stdexcept>
#include <string>
#include <vector>
class ByteBuf {
  std::vector<uint8_t> d_; size_t r_ = 0;
  template <class T> void put(T v, bool le) { uint8_t b[sizeof(T)]; std::memcpy(b, &v, sizeof(T)); emit(b, sizeof(T), le); }
  void emit(const uint8_t* b, size_t n, bool le) { // host is little endian
    if (le) d_.insert(d_.end(), b, b + n); else for (size_t i = n; i-- > 0;) d_.push_back(b[i]); }
  template <class T> void put_at(size_t pos, T v, bool le) { uint8_t b[sizeof(T)]; std::memcpy(b, &v, sizeof(T)); if (pos + sizeof(T) > d_.size()) throw std::out_of_range("write_at");
    for (size_t i = 0; i < sizeof(T); i++) d_[pos + i] = le ? b[i] : b[sizeof(T) - 1 - i]; }
  template <class T> T get(bool le) { if (r_ + sizeof(T) > d_.size()) throw std::out_of_range("underflow"); uint8_t b[sizeof(T)];
    for (size_t i = 0; i < sizeof(T); i++) b[i] = le ? d_[r_ + i] : d_[r_ + sizeof(T) - 1 - i]; r_ += sizeof(T); T v; std::memcpy(&v, b, sizeof(T)); return v; }
 public:
  ByteBuf() {} explicit ByteBuf(const std::vector<uint8_t>& v) : d_(v) {}
  size_t writer_index() const { return d_.size(); } size_t reader_index() const { return r_; }
  const std::vector<uint8_t>& data() const { return d_; }
  void write_bytes(const void* p, size_t n) { auto b = static_cast<const uint8_t*>(p); d_.insert(d_.end(), b, b + n); }
  std::string read_bytes(size_t n) { if (r_ + n > d_.size()) throw std::out_of_range("underflow"); std::string s(d_.begin() + r_, d_.begin() + r_ + n); r_ += n; return s; }
#define BB(N, T) void write_##N(T v) { put<T>(v, false); } void write_##N##_le(T v) { put<T>(v, true); } T read_##N() { return get<T>(false); } T read_##N##_le() { return get<T>(true); } \
  void write_##N##_at(size_t p, T v) { put_at<T>(p, v, false); } void write_##N##_le_at(size_t p, T v) { put_at<T>(p, v, true); }
  BB(u8, uint8_t) BB(i8, int8_t) BB(u16, uint16_t) BB(i16, int16_t) BB(u32, uint32_t) BB(i32, int32_t) BB(u64, uint64_t) BB(i64, int64_t) BB(f32, float) BB(f64, double)
#undef BB
};
