#pragma once
#include <functional>
#include <memory>
#include <stdexcept>
#include <unordered_map>
template <class K, class Base, class Tag> class MessageFactory { std::unordered_map<K, std::function<std::unique_ptr<Base>()>> m_;
 public: static MessageFactory& getInstance() { static MessageFactory f; return f; }
  void reg(const K& k, std::function<std::unique_ptr<Base>()> c) { m_[k] = c; }
  std::unique_ptr<Base> create(const K& k) const { auto it = m_.find(k); if (it == m_.end()) throw std::invalid_argument("unknown message type"); return it->second(); } };
#define MF_CAT2(a, b) a##b
#define MF_CAT(a, b) MF_CAT2(a, b)
#define REGISTER_MESSAGE(F, KEY, T) static const bool MF_CAT(mf_reg_, __COUNTER__) = (F::getInstance().reg(KEY, [] { return std::unique_ptr<codec::BinaryCodec>(new T()); }), true)
