#pragma once
#include <cstdio>
#include <functional>
#include <string>
#include <vector>
namespace vgtest { struct T { std::string n; std::function<void()> f; }; inline std::vector<T>& all() { static std::vector<T> v; return v; } inline int& fails() { static int f = 0; return f; }
struct R { R(const char* n, std::function<void()> f) { all().push_back({n, f}); } }; }
#define TEST(S, N) static void S##_##N##_body(); static vgtest::R S##_##N##_reg(#S "." #N, S##_##N##_body); static void S##_##N##_body()
#define EXPECT_TRUE(c) do { if (!(c)) { std::printf("FAILED %s:%d %s\n", __FILE__, __LINE__, #c); vgtest::fails()++; } } while (0)
int main() { int run = 0; for (auto& t : vgtest::all()) { int b = vgtest::fails(); try { t.f(); } catch (const std::exception& e) { std::printf("EXC %s %s\n", t.n.c_str(), e.what()); vgtest::fails()++; } std::printf("%s %s\n", vgtest::fails() == b ? "PASS" : "FAIL", t.n.c_str()); run++; } std::printf("run=%d fail=%d\n", run, vgtest::fails()); return vgtest::fails() ? 1 : 0; }
