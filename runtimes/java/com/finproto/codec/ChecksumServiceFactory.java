package com.finproto.codec;
import java.util.HashMap; import java.util.Map;
public final class ChecksumServiceFactory {
    private static final ChecksumServiceFactory I = new ChecksumServiceFactory();
    private final Map<String, ChecksumService<?, ?>> m = new HashMap<>();
    public static ChecksumServiceFactory getInstance() { return I; }
    @SuppressWarnings("unchecked") public <B, T> ChecksumService<B, T> getChecksumService(String name) { return (ChecksumService<B, T>) m.get(name); }
    public void register(String name, ChecksumService<?, ?> s) { m.put(name, s); }
    public void clear() { m.clear(); }
}
