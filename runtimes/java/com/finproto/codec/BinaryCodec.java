package com.finproto.codec;
import io.netty.buffer.ByteBuf;
import java.nio.charset.StandardCharsets;
public interface BinaryCodec {
    void encode(ByteBuf byteBuf);
    void decode(ByteBuf byteBuf);
    default void writeFixedString(ByteBuf buf, String s, int n) { writeFixedString(buf, s, n, ' ', false); }
    default void writeFixedString(ByteBuf buf, String s, int n, char pad, boolean left) {
        byte[] b = (s == null ? "" : s).getBytes(StandardCharsets.UTF_8);
        if (b.length > n) throw new IllegalArgumentException("too long");
        if (left) for (int i = b.length; i < n; i++) buf.writeByte(pad);
        buf.writeBytes(b);
        if (!left) for (int i = b.length; i < n; i++) buf.writeByte(pad);
    }
    default String readFixedString(ByteBuf buf, int n) { return readFixedString(buf, n, ' ', false); }
    default String readFixedString(ByteBuf buf, int n, char pad, boolean left) {
        byte[] b = new byte[n]; buf.readBytes(b); int s = 0, e = n;
        if (left) while (s < e && b[s] == (byte) pad) s++; else while (e > s && b[e - 1] == (byte) pad) e--;
        return new String(b, s, e - s, StandardCharsets.UTF_8);
    }
}
