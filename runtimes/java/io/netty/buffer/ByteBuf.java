package io.netty.buffer;
import java.nio.charset.Charset;
public class ByteBuf {
    private byte[] a = new byte[256]; private int r = 0, w = 0;
    public ByteBuf() {}
    public ByteBuf(byte[] d) { a = d.clone(); w = d.length; }
    private void ens(int n) { if (w + n > a.length) a = java.util.Arrays.copyOf(a, Math.max(a.length * 2, w + n)); }
    private void chk(int n) { if (r + n > w) throw new IndexOutOfBoundsException("readerIndex(" + r + ") + length(" + n + ") exceeds writerIndex(" + w + ")"); }
    public int writerIndex() { return w; } public int readerIndex() { return r; } public int readableBytes() { return w - r; }
    public boolean isReadable() { return w > r; } public boolean isReadable(int n) { return w - r >= n; } public int capacity() { return a.length; }
    public short readUnsignedByte() { return (short) (rBE(1) & 0xff); } public int readUnsignedShort() { return (int) (rBE(2) & 0xffff); } public long readUnsignedInt() { return rBE(4) & 0xffffffffL; }
    public int readUnsignedShortLE() { return (int) (rLE(2) & 0xffff); } public long readUnsignedIntLE() { return rLE(4) & 0xffffffffL; }
    private void setBE(int i, long v, int n) { for (int k = 0; k < n; k++) a[i + k] = (byte) (v >>> (8 * (n - 1 - k))); }
    private void setLE(int i, long v, int n) { for (int k = 0; k < n; k++) a[i + k] = (byte) (v >>> (8 * k)); }
    private long getBE(int i, int n) { long v = 0; for (int k = 0; k < n; k++) v = (v << 8) | (a[i + k] & 0xff); return v; }
    private long getLE(int i, int n) { long v = 0; for (int k = n - 1; k >= 0; k--) v = (v << 8) | (a[i + k] & 0xff); return v; }
    private ByteBuf wBE(long v, int n) { ens(n); setBE(w, v, n); w += n; return this; }
    private ByteBuf wLE(long v, int n) { ens(n); setLE(w, v, n); w += n; return this; }
    private long rBE(int n) { chk(n); long v = getBE(r, n); r += n; return v; }
    private long rLE(int n) { chk(n); long v = getLE(r, n); r += n; return v; }
    public ByteBuf writeByte(int v) { return wBE(v, 1); } public ByteBuf writeShort(int v) { return wBE(v, 2); } public ByteBuf writeInt(int v) { return wBE(v, 4); } public ByteBuf writeLong(long v) { return wBE(v, 8); }
    public ByteBuf writeShortLE(int v) { return wLE(v, 2); } public ByteBuf writeIntLE(int v) { return wLE(v, 4); } public ByteBuf writeLongLE(long v) { return wLE(v, 8); }
    public ByteBuf writeFloat(float v) { return writeInt(Float.floatToRawIntBits(v)); } public ByteBuf writeDouble(double v) { return writeLong(Double.doubleToRawLongBits(v)); }
    public ByteBuf writeFloatLE(float v) { return writeIntLE(Float.floatToRawIntBits(v)); } public ByteBuf writeDoubleLE(double v) { return writeLongLE(Double.doubleToRawLongBits(v)); }
    public byte readByte() { return (byte) rBE(1); } public short readShort() { return (short) rBE(2); } public int readInt() { return (int) rBE(4); } public long readLong() { return rBE(8); }
    public short readShortLE() { return (short) rLE(2); } public int readIntLE() { return (int) rLE(4); } public long readLongLE() { return rLE(8); }
    public float readFloat() { return Float.intBitsToFloat(readInt()); } public double readDouble() { return Double.longBitsToDouble(readLong()); }
    public float readFloatLE() { return Float.intBitsToFloat(readIntLE()); } public double readDoubleLE() { return Double.longBitsToDouble(readLongLE()); }
    public ByteBuf setByte(int i, int v) { setBE(i, v, 1); return this; } public ByteBuf setShort(int i, int v) { setBE(i, v, 2); return this; } public ByteBuf setInt(int i, int v) { setBE(i, v, 4); return this; } public ByteBuf setLong(int i, long v) { setBE(i, v, 8); return this; }
    public ByteBuf setShortLE(int i, int v) { setLE(i, v, 2); return this; } public ByteBuf setIntLE(int i, int v) { setLE(i, v, 4); return this; } public ByteBuf setLongLE(int i, long v) { setLE(i, v, 8); return this; }
    public ByteBuf writeBytes(byte[] b) { ens(b.length); System.arraycopy(b, 0, a, w, b.length); w += b.length; return this; }
    public ByteBuf readBytes(byte[] b) { chk(b.length); System.arraycopy(a, r, b, 0, b.length); r += b.length; return this; }
    public int writeCharSequence(CharSequence s, Charset cs) { byte[] b = s.toString().getBytes(cs); writeBytes(b); return b.length; }
    public CharSequence readCharSequence(int n, Charset cs) { chk(n); String s = new String(a, r, n, cs); r += n; return s; }
    public byte getByte(int i) { return a[i]; }
    private void nonNeg(int n) { if (n < 0) throw new IllegalArgumentException("length: " + n + " (expected: >= 0)"); }
    public ByteBuf readSlice(int n) { nonNeg(n); chk(n); ByteBuf s = new ByteBuf(java.util.Arrays.copyOfRange(a, r, r + n)); r += n; return s; }
    public ByteBuf readBytes(int n) { return readSlice(n); }
    public ByteBuf readRetainedSlice(int n) { return readSlice(n); }
    public ByteBuf skipBytes(int n) { nonNeg(n); chk(n); r += n; return this; }
    public ByteBuf slice() { return new ByteBuf(toArray()); }
    public ByteBuf readerIndex(int i) { if (i < 0 || i > w) throw new IndexOutOfBoundsException("readerIndex: " + i); r = i; return this; }
    public ByteBuf writerIndex(int i) { if (i < r || i > a.length) throw new IndexOutOfBoundsException("writerIndex: " + i); w = i; return this; }
    public ByteBuf writeBytes(ByteBuf o) { byte[] b = o.toArray(); o.r = o.w; return writeBytes(b); }
    public boolean release() { return true; }
    public byte[] toArray() { return java.util.Arrays.copyOfRange(a, r, w); }
}
