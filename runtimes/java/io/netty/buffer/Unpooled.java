package io.netty.buffer;
public final class Unpooled { public static ByteBuf buffer() { return new ByteBuf(); } public static ByteBuf wrappedBuffer(byte[] b) { return new ByteBuf(b); } }
