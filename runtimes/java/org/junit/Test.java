package org.junit;
import java.lang.annotation.*;
@Retention(RetentionPolicy.RUNTIME) @Target(ElementType.METHOD) public @interface Test {}
