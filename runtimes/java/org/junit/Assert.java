package org.junit;
public class Assert { public static void assertEquals(Object a, Object b) { if (!java.util.Objects.equals(a, b)) throw new AssertionError("expected:<" + a + "> but was:<" + b + ">"); } }
