package codec

import (
	"bytes"
	"encoding/binary"
	"fmt"
	"math"
	"strings"
)

type BinaryCodec interface {
	Encode(buf *bytes.Buffer) error
	Decode(buf *bytes.Buffer) error
}

type Basic interface {
	~int8 | ~int16 | ~int32 | ~int64 | ~uint8 | ~uint16 | ~uint32 | ~uint64 | ~float32 | ~float64
}
type Unsigned interface {
	~uint8 | ~uint16 | ~uint32 | ~uint64
}

func write[T Basic](buf *bytes.Buffer, v T, o binary.ByteOrder) error { return binary.Write(buf, o, v) }
func read[T Basic](buf *bytes.Buffer, o binary.ByteOrder) (T, error) {
	var v T
	err := binary.Read(buf, o, &v)
	return v, err
}
func WriteBasicType[T Basic](buf *bytes.Buffer, v T) error   { return write(buf, v, binary.BigEndian) }
func WriteBasicTypeLE[T Basic](buf *bytes.Buffer, v T) error { return write(buf, v, binary.LittleEndian) }
func ReadBasicType[T Basic](buf *bytes.Buffer) (T, error)    { return read[T](buf, binary.BigEndian) }
func ReadBasicTypeLE[T Basic](buf *bytes.Buffer) (T, error)  { return read[T](buf, binary.LittleEndian) }

func writeList[L Unsigned, T Basic](buf *bytes.Buffer, vs []T, o binary.ByteOrder) error {
	if err := write(buf, L(len(vs)), o); err != nil {
		return err
	}
	for _, v := range vs {
		if err := write(buf, v, o); err != nil {
			return err
		}
	}
	return nil
}
func readList[L Unsigned, T Basic](buf *bytes.Buffer, o binary.ByteOrder) ([]T, error) {
	n, err := read[L](buf, o)
	if err != nil {
		return nil, err
	}
	var out []T
	for i := uint64(0); i < uint64(n); i++ {
		v, err := read[T](buf, o)
		if err != nil {
			return nil, err
		}
		out = append(out, v)
	}
	return out, nil
}
func WriteBasicTypeList[L Unsigned, T Basic](buf *bytes.Buffer, vs []T) error {
	return writeList[L](buf, vs, binary.BigEndian)
}
func WriteBasicTypeListLE[L Unsigned, T Basic](buf *bytes.Buffer, vs []T) error {
	return writeList[L](buf, vs, binary.LittleEndian)
}
func ReadBasicTypeList[L Unsigned, T Basic](buf *bytes.Buffer) ([]T, error) {
	return readList[L, T](buf, binary.BigEndian)
}
func ReadBasicTypeListLE[L Unsigned, T Basic](buf *bytes.Buffer) ([]T, error) {
	return readList[L, T](buf, binary.LittleEndian)
}

func writeString[L Unsigned](buf *bytes.Buffer, s string, o binary.ByteOrder) error {
	if err := write(buf, L(len(s)), o); err != nil {
		return err
	}
	buf.WriteString(s)
	return nil
}
func readString[L Unsigned](buf *bytes.Buffer, o binary.ByteOrder) (string, error) {
	n, err := read[L](buf, o)
	if err != nil {
		return "", err
	}
	b := make([]byte, uint64(n))
	if _, err := buf.Read(b); err != nil && n > 0 {
		return "", err
	}
	return string(b), nil
}
func WriteString[L Unsigned](buf *bytes.Buffer, s string) error   { return writeString[L](buf, s, binary.BigEndian) }
func WriteStringLE[L Unsigned](buf *bytes.Buffer, s string) error { return writeString[L](buf, s, binary.LittleEndian) }
func ReadString[L Unsigned](buf *bytes.Buffer) (string, error)    { return readString[L](buf, binary.BigEndian) }
func ReadStringLE[L Unsigned](buf *bytes.Buffer) (string, error)  { return readString[L](buf, binary.LittleEndian) }

func writeStringList[L Unsigned, S Unsigned](buf *bytes.Buffer, vs []string, o binary.ByteOrder) error {
	if err := write(buf, L(len(vs)), o); err != nil {
		return err
	}
	for _, v := range vs {
		if err := writeString[S](buf, v, o); err != nil {
			return err
		}
	}
	return nil
}
func readStringList[L Unsigned, S Unsigned](buf *bytes.Buffer, o binary.ByteOrder) ([]string, error) {
	n, err := read[L](buf, o)
	if err != nil {
		return nil, err
	}
	var out []string
	for i := uint64(0); i < uint64(n); i++ {
		v, err := readString[S](buf, o)
		if err != nil {
			return nil, err
		}
		out = append(out, v)
	}
	return out, nil
}
func WriteStringList[L Unsigned, S Unsigned](buf *bytes.Buffer, vs []string) error {
	return writeStringList[L, S](buf, vs, binary.BigEndian)
}
func WriteStringListLE[L Unsigned, S Unsigned](buf *bytes.Buffer, vs []string) error {
	return writeStringList[L, S](buf, vs, binary.LittleEndian)
}
func ReadStringList[L Unsigned, S Unsigned](buf *bytes.Buffer) ([]string, error) {
	return readStringList[L, S](buf, binary.BigEndian)
}
func ReadStringListLE[L Unsigned, S Unsigned](buf *bytes.Buffer) ([]string, error) {
	return readStringList[L, S](buf, binary.LittleEndian)
}

func WriteFixedStringWithPadding(buf *bytes.Buffer, s string, n int, pad rune, left bool) error {
	if len(s) > n {
		return fmt.Errorf("string too long")
	}
	p := strings.Repeat(string(pad), n-len(s))
	if left {
		buf.WriteString(p + s)
	} else {
		buf.WriteString(s + p)
	}
	return nil
}
func WriteFixedString(buf *bytes.Buffer, s string, n int) error {
	return WriteFixedStringWithPadding(buf, s, n, ' ', false)
}
func ReadFixedStringTrimPadding(buf *bytes.Buffer, n int, pad rune, left bool) (string, error) {
	b := make([]byte, n)
	if m, _ := buf.Read(b); m != n {
		return "", fmt.Errorf("short read")
	}
	if left {
		return strings.TrimLeft(string(b), string(pad)), nil
	}
	return strings.TrimRight(string(b), string(pad)), nil
}
func ReadFixedString(buf *bytes.Buffer, n int) (string, error) {
	return ReadFixedStringTrimPadding(buf, n, ' ', false)
}
func writeFixedList[L Unsigned](buf *bytes.Buffer, vs []string, n int, pad rune, left bool, o binary.ByteOrder) error {
	if err := write(buf, L(len(vs)), o); err != nil {
		return err
	}
	for _, v := range vs {
		if err := WriteFixedStringWithPadding(buf, v, n, pad, left); err != nil {
			return err
		}
	}
	return nil
}
func readFixedList[L Unsigned](buf *bytes.Buffer, n int, pad rune, left bool, o binary.ByteOrder) ([]string, error) {
	c, err := read[L](buf, o)
	if err != nil {
		return nil, err
	}
	var out []string
	for i := uint64(0); i < uint64(c); i++ {
		v, err := ReadFixedStringTrimPadding(buf, n, pad, left)
		if err != nil {
			return nil, err
		}
		out = append(out, v)
	}
	return out, nil
}
func WriteFixedStringList[L Unsigned](buf *bytes.Buffer, vs []string, n int) error {
	return writeFixedList[L](buf, vs, n, ' ', false, binary.BigEndian)
}
func WriteFixedStringListLE[L Unsigned](buf *bytes.Buffer, vs []string, n int) error {
	return writeFixedList[L](buf, vs, n, ' ', false, binary.LittleEndian)
}
func WriteFixedStringListWithPadding[L Unsigned](buf *bytes.Buffer, vs []string, n int, pad rune, left bool) error {
	return writeFixedList[L](buf, vs, n, pad, left, binary.BigEndian)
}
func WriteFixedStringListWithPaddingLE[L Unsigned](buf *bytes.Buffer, vs []string, n int, pad rune, left bool) error {
	return writeFixedList[L](buf, vs, n, pad, left, binary.LittleEndian)
}
func ReadFixedStringList[L Unsigned](buf *bytes.Buffer, n int) ([]string, error) {
	return readFixedList[L](buf, n, ' ', false, binary.BigEndian)
}
func ReadFixedStringListLE[L Unsigned](buf *bytes.Buffer, n int) ([]string, error) {
	return readFixedList[L](buf, n, ' ', false, binary.LittleEndian)
}
func ReadFixedStringListTrimPadding[L Unsigned](buf *bytes.Buffer, n int, pad rune, left bool) ([]string, error) {
	return readFixedList[L](buf, n, pad, left, binary.BigEndian)
}
func ReadFixedStringListTrimPaddingLE[L Unsigned](buf *bytes.Buffer, n int, pad rune, left bool) ([]string, error) {
	return readFixedList[L](buf, n, pad, left, binary.LittleEndian)
}

func writeObjList[L Unsigned, T BinaryCodec](buf *bytes.Buffer, vs []T, o binary.ByteOrder) error {
	if err := write(buf, L(len(vs)), o); err != nil {
		return err
	}
	for _, v := range vs {
		if err := v.Encode(buf); err != nil {
			return err
		}
	}
	return nil
}
func readObjList[L Unsigned, T BinaryCodec](buf *bytes.Buffer, f func() T, o binary.ByteOrder) ([]T, error) {
	n, err := read[L](buf, o)
	if err != nil {
		return nil, err
	}
	var out []T
	for i := uint64(0); i < uint64(n); i++ {
		v := f()
		if err := v.Decode(buf); err != nil {
			return nil, err
		}
		out = append(out, v)
	}
	return out, nil
}
func WriteObjectList[L Unsigned, T BinaryCodec](buf *bytes.Buffer, vs []T) error {
	return writeObjList[L](buf, vs, binary.BigEndian)
}
func WriteObjectListLE[L Unsigned, T BinaryCodec](buf *bytes.Buffer, vs []T) error {
	return writeObjList[L](buf, vs, binary.LittleEndian)
}
func ReadObjectList[L Unsigned, T BinaryCodec](buf *bytes.Buffer, f func() T) ([]T, error) {
	return readObjList[L](buf, f, binary.BigEndian)
}
func ReadObjectListLE[L Unsigned, T BinaryCodec](buf *bytes.Buffer, f func() T) ([]T, error) {
	return readObjList[L](buf, f, binary.LittleEndian)
}

type ChecksumService[B any, T any] interface{ Calc(B) T }

var registry = map[string]any{}

func Get(name string) (any, bool) { v, ok := registry[name]; return v, ok }
func Register(name string, s any)  { registry[name] = s }

var _ = math.Pi

// ClearServices removes every registered checksum service (harness only).
func ClearServices() { registry = map[string]any{} }
