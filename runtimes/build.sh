#!/bin/sh
# Builds the stand-in runtimes into /verif/build/rt (harness-side only; nothing from /repo).
set -e
here="$(cd "$(dirname "$0")" && pwd)"
out="$here/../build/rt"
mkdir -p "$out"
rm -f "$out/.ok"
export CARGO_NET_OFFLINE=true
# Rust: rlibs of bytes, byteorder and the stand-in binary_codec
(cd "$here/rust_binary_codec" && cargo build --offline --release --target-dir "$out/rust" >/dev/null 2>"$out/rust-build.log") || { cat "$out/rust-build.log"; exit 1; }
# Java: stand-in classes (codec API, netty subset, junit subset, runner)
mkdir -p "$out/java"
find "$here/java" -name '*.java' > "$out/java-sources.txt"
javac -nowarn -d "$out/java" @"$out/java-sources.txt"
# Lua host
gcc -O1 -o "$out/luahost" "$here/lua/luahost.c" -I/usr/include/lua5.3 -llua5.3
touch "$out/.ok"
echo runtimes-ok
