#include <lua.h>
#include <lauxlib.h>
#include <lualib.h>
#include <stdio.h>
int main(int argc, char**argv){ lua_State*L=luaL_newstate(); luaL_openlibs(L);
 lua_newtable(L); for(int i=0;i<argc;i++){lua_pushstring(L,argv[i]);lua_rawseti(L,-2,i);} lua_setglobal(L,"arg");
 if(luaL_dofile(L,argv[1])){fprintf(stderr,"LUAERR %s\n",lua_tostring(L,-1));return 1;} return 0;}
