-- usage: luahost run.lua <stub> <script.lua> <commands-file>
-- loads the emitted script unmodified under the stub, then dissects every hex line.
local stub = dofile(arg[2])
local chunk, lerr = loadfile(arg[3])
if not chunk then print("LOADERR " .. tostring(lerr)); os.exit(0) end
local ok, e = pcall(chunk)
if not ok then print("TOPERR " .. tostring(e)); os.exit(0) end
local proto = stub.protos[1]
if not proto or type(proto.dissector) ~= "function" then print("TOPERR no Proto with a dissector was created"); os.exit(0) end
print("LOADED")
local i = 0
for line in io.lines(arg[4]) do
  if #line > 0 then
    local hex = line
    if hex == "-" then hex = "" end
    local rec, final, n, okd, err = stub.run(proto, hex)
    for _, r in ipairs(rec) do print("REC " .. i .. " " .. r[1] .. " " .. r[2] .. " " .. r[3] .. " " .. r[4] .. " " .. tostring(r[5])) end
    print("END " .. i .. " final=" .. tostring(final) .. " len=" .. n .. " ok=" .. tostring(okd) .. " err=" .. tostring(err):gsub("\n", " "))
    i = i + 1
  end
end
