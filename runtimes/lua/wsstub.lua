-- Stand-in for the part of the Wireshark Lua API the emitted dissectors use. It records every
-- tree:add / tree:le_add whose first argument is a ProtoField, with the byte range passed.
local M = {protos = {}, rec = {}}
base = {DEC = 1, OCT = 2, HEX = 3, NONE = 0}
ProtoField = setmetatable({}, {__index = function(t, kind)
  return function(abbr, name, b) return {pf = true, kind = kind, abbr = abbr, name = name} end
end})
function Proto(name, desc)
  local p = {name = name, desc = desc, fields = {}}
  M.protos[#M.protos + 1] = p
  return p
end
DissectorTable = {get = function(name) return {add = function(self, port, proto) end} end}

local Range = {}
Range.__index = Range
local function num(r, le, signed)
  if r.len > 8 or r.len < 1 then error("Range: invalid length " .. r.len .. " for a numeric accessor") end
  local v = 0
  for i = 0, r.len - 1 do
    local b = r.data:byte(r.off + (le and (r.len - 1 - i) or i) + 1)
    v = (v << 8) | b
  end
  if signed and r.len < 8 and v >= (1 << (8 * r.len - 1)) then v = v - (1 << (8 * r.len)) end
  return v
end
function Range:uint() if self.len > 4 then error("uint() on a range of " .. self.len .. " bytes") end return num(self, false, false) end
function Range:le_uint() if self.len > 4 then error("le_uint() on a range of " .. self.len .. " bytes") end return num(self, true, false) end
-- Wireshark returns UInt64/Int64 userdata for 64-bit accessors, not Lua numbers: they never
-- compare equal to a number with ==, and need :tonumber() / tostring() to be used as one.
local Int64 = {}
Int64.__index = Int64
Int64.__eq = function(a, b) return getmetatable(a) == Int64 and getmetatable(b) == Int64 and a.v == b.v end
Int64.__tostring = function(a) return a.unsigned and string.format("%u", a.v) or tostring(a.v) end
Int64.__concat = function(a, b) return tostring(a) .. tostring(b) end
function Int64:tonumber() return self.v end
local function box64(v, unsigned) return setmetatable({v = v, unsigned = unsigned}, Int64) end
function Range:uint64() return box64(num(self, false, false), true) end
function Range:le_uint64() return box64(num(self, true, false), true) end
function Range:int() if self.len > 4 then error("int() on a range of " .. self.len .. " bytes") end return num(self, false, true) end
function Range:le_int() if self.len > 4 then error("le_int() on a range of " .. self.len .. " bytes") end return num(self, true, true) end
function Range:int64() return box64(num(self, false, true), false) end
function Range:le_int64() return box64(num(self, true, true), false) end
function Range:float() return 0.0 end
function Range:le_float() return 0.0 end
function Range:string() return self.data:sub(self.off + 1, self.off + self.len) end
function Range:bytes() return self.data:sub(self.off + 1, self.off + self.len) end
function Range:len() return self.len end

local function mkbuf(data)
  return setmetatable({data = data, len = function() return #data end}, {__call = function(self, off, len)
    if type(off) ~= "number" or (len ~= nil and type(len) ~= "number") then error("Range: offset/length must be numbers") end
    if len == nil then len = #data - off end
    if off < 0 or len < 0 or off + len > #data then error("Range is out of bounds: offset " .. tostring(off) .. " length " .. tostring(len) .. " buffer " .. #data) end
    return setmetatable({data = data, off = math.tointeger(off) or off, len = math.tointeger(len) or len}, Range)
  end})
end

local Tree = {}
Tree.__index = Tree
local function add(le)
  return function(self, f, r, ...)
    if self == nil then error("add on a nil tree") end
    if f == nil then error("tree:add called with a nil field (undefined ProtoField)") end
    if type(f) == "table" and f.pf then
      if type(r) ~= "table" or r.off == nil then error("tree:add(field) without a byte range") end
      M.rec[#M.rec + 1] = {f.abbr, r.off, r.len, le and "le" or "be", f.kind}
    end
    return setmetatable({}, Tree)
  end
end
Tree.add = add(false)
Tree.le_add = add(true)
function Tree:append_text() return self end
function Tree:set_text() return self end
local cols = {info = {set = function() end, append = function() end}, protocol = ""}

function M.run(proto, hex)
  local data = hex:gsub("%x%x", function(h) return string.char(tonumber(h, 16)) end)
  M.rec = {}
  local final
  debug.sethook(function(ev)
    local info = debug.getinfo(2, "f")
    if info and info.func == proto.dissector then
      local i = 1
      while true do
        local n, v = debug.getlocal(2, i)
        if not n then break end
        if n == "offset" then final = v end
        i = i + 1
      end
    end
  end, "r")
  local ok, err = pcall(proto.dissector, mkbuf(data), {cols = cols}, setmetatable({}, Tree))
  debug.sethook()
  return M.rec, final, #data, ok, err
end
return M
