from typing import Generic, TypeVar
K=TypeVar('K'); V=TypeVar('V')
class MessageFactory(Generic[K,V]):
    def __init__(self): self._m={}
    def register(self,k,c): self._m[k]=c
    def create(self,k):
        if k not in self._m: raise KeyError('unknown message type %r'%(k,))
        return self._m[k]()
