from bytebuf import ByteBuf
class BinaryCodec:
    def encode(self,buffer): raise NotImplementedError
    def decode(self,buffer): raise NotImplementedError
def write_fixed_string(buffer,s,n,enc='utf-8',pad=' ',left=False):
    b=s.encode(enc); p=pad.encode(enc)*(n-len(b)); buffer.write_bytes(p+b if left else b+p)
def read_fixed_string(buffer,n,enc='utf-8',pad=' ',left=False):
    b=buffer.read_bytes(n); p=pad.encode(enc); b=b.lstrip(p) if left else b.rstrip(p); return b.decode(enc)
def _w(buffer,t,le,v): getattr(buffer,'write_'+t+('_le' if le and t not in('u8','i8') else ''))(v)
def _r(buffer,t,le): return getattr(buffer,'read_'+t+('_le' if le and t not in('u8','i8') else ''))()
def write_string(buffer,s,t): b=s.encode('utf-8'); _w(buffer,t,False,len(b)); buffer.write_bytes(b)
def write_string_le(buffer,s,t): b=s.encode('utf-8'); _w(buffer,t,True,len(b)); buffer.write_bytes(b)
def read_string(buffer,t): return buffer.read_bytes(_r(buffer,t,False)).decode('utf-8')
def read_string_le(buffer,t): return buffer.read_bytes(_r(buffer,t,True)).decode('utf-8')
def read_len(buffer,t): return _r(buffer,t,False)
def read_len_le(buffer,t): return _r(buffer,t,True)
