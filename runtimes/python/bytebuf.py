import struct
_F={'u8':'B','i8':'b','u16':'H','i16':'h','u32':'I','i32':'i','u64':'Q','i64':'q','f32':'f','f64':'d'}
class ByteBuf:
    def __init__(self,data=b''):
        self.data=bytearray(data); self.read_index=0
    @property
    def write_index(self): return len(self.data)
    def write_bytes(self,b): self.data+=b
    def read_bytes(self,n):
        if self.read_index+n>len(self.data): raise IndexError('underflow')
        b=bytes(self.data[self.read_index:self.read_index+n]); self.read_index+=n; return b
def _mk(name,fmt):
    for suf,e in (('','>'),('_le','<')):
        def w(self,v,_f=e+fmt): self.data+=struct.pack(_f,v)
        def r(self,_f=e+fmt): return struct.unpack(_f,self.read_bytes(struct.calcsize(_f)))[0]
        def wa(self,pos,v,_f=e+fmt): self.data[pos:pos+struct.calcsize(_f)]=struct.pack(_f,v)
        setattr(ByteBuf,'write_'+name+suf,w); setattr(ByteBuf,'read_'+name+suf,r); setattr(ByteBuf,'write_'+name+suf+'_at',wa)
for n,f in _F.items(): _mk(n,f)
