# stand-in for the runtime's checksum registry; the harness driver registers test services
_reg = {}


def create_checksum_service(name):
    return _reg.get(name)


class TestService:
    """Position-sensitive polynomial hash over the buffer written so far, reduced to the
    value domain of the checksum field's declared type."""

    def __init__(self, typ, wide=False):
        self.typ = typ
        self.wide = wide  # 64-bit fields: the hash in both halves of the value

    def calc(self, buf):
        h = 7
        for c in bytes(buf.data):
            h = (h * 131 + c + 1) & 0x7FFFFFFF
        if h & 7 == 0:
            h = 0
        if self.wide and self.typ in ('u64', 'i64'):
            h = h * 0x100000001
        bits = {'u8': 8, 'i8': 8, 'u16': 16, 'i16': 16, 'u32': 32, 'i32': 32, 'u64': 64, 'i64': 64}[self.typ]
        v = h & ((1 << bits) - 1)
        if self.typ[0] == 'i' and v >= 1 << (bits - 1):
            v -= 1 << bits
        return v
