"""Harness driver for emitted Python codecs. Generic: driven by schema.json (written by the
harness from its own AST; member names follow the generators' naming rules).
usage: driver.py <module> <schema.json> <commands-file>"""
import importlib, json, struct, sys, traceback

mod = importlib.import_module(sys.argv[1])
schema = json.load(open(sys.argv[2]))
packets = {p['name']: p for p in schema['packets']}
import checksum
from bytebuf import ByteBuf

BITS = {'char': 8, 'u8': 8, 'i8': 8, 'u16': 16, 'i16': 16, 'u32': 32, 'i32': 32, 'u64': 64, 'i64': 64, 'f32': 32, 'f64': 64}


def from_bits(t, u):
    if t == 'f32':
        return struct.unpack('>f', struct.pack('>I', u))[0]
    if t == 'f64':
        return struct.unpack('>d', struct.pack('>Q', u))[0]
    if t[0] == 'i' and u >= 1 << (BITS[t] - 1):
        return u - (1 << BITS[t])
    return u


def to_bits(t, v):
    if t == 'f32':
        return struct.unpack('>I', struct.pack('>f', v))[0]
    if t == 'f64':
        return struct.unpack('>Q', struct.pack('>d', v))[0]
    return v & ((1 << BITS[t]) - 1)


class Toks:
    def __init__(self, s):
        self.t = s.split()
        self.i = 0

    def next(self):
        v = self.t[self.i]
        self.i += 1
        return v


def build(pname, tk):
    p = packets[pname]
    obj = getattr(mod, p['cls'])()
    for f in p['fields']:
        def one():
            k = f['kind']
            if k in ('scalar', 'len', 'sum'):
                return from_bits(f['type'], int(tk.next()))
            if k in ('fixed', 'dyn'):
                return bytes.fromhex(tk.next()[2:]).decode('utf-8')
            if k in ('obj', 'inline'):
                return build(f['ref'], tk)
            if k == 'match':
                return build(tk.next(), tk)
            raise Exception('kind ' + k)
        if f['repeat']:
            n = int(tk.next())
            setattr(obj, f['member'], [one() for _ in range(n)])
        else:
            setattr(obj, f['member'], one())
    return obj


def dump(pname, obj, out):
    p = packets[pname]
    for f in p['fields']:
        v = getattr(obj, f['member'])

        def one(x):
            k = f['kind']
            if k in ('scalar', 'len', 'sum'):
                out.append(str(to_bits(f['type'], x)))
            elif k in ('fixed', 'dyn'):
                out.append('s:' + (x or '').encode('utf-8').hex())
            elif k in ('obj', 'inline'):
                dump(f['ref'], x, out)
            elif k == 'match':
                name = None
                for q in packets.values():
                    if type(x).__name__ == q['cls'] and not q.get('inline'):
                        name = q['name']
                out.append(name or ('?' + type(x).__name__))
                dump(name, x, out)
        if f['repeat']:
            v = v or []
            out.append(str(len(v)))
            for x in v:
                one(x)
        else:
            one(v)


reuse = False
last = {}


def new_obj(pname):
    if reuse and pname in last:
        return last[pname]
    o = getattr(mod, packets[pname]['cls'])()
    last[pname] = o
    return o


for line in open(sys.argv[3]):
    line = line.rstrip('\n')
    if not line:
        continue
    parts = line.split(' ', 3)
    cmd = parts[0]
    try:
        if cmd == 'REUSE':
            reuse = parts[1] == '1'
            print('R - ok')
        elif cmd == 'CKS':
            checksum._reg.clear()
            if parts[1] != '0':
                for a in schema['algs']:
                    checksum._reg[a['name']] = checksum.TestService(a['type'], parts[1] == '2')
            print('R - ok')
        elif cmd == 'ENC':
            obj = build(parts[2], Toks(parts[3] if len(parts) > 3 else ''))
            buf = ByteBuf()
            obj.encode(buf)
            print('R %s ok %s' % (parts[1], bytes(buf.data).hex() or '-'))
        elif cmd == 'DEC':
            data = bytes.fromhex(parts[3]) if len(parts) > 3 and parts[3] != '-' else b''
            buf = ByteBuf(data)
            obj = new_obj(parts[2])
            obj.decode(buf)
            out = []
            dump(parts[2], obj, out)
            re = ByteBuf()
            obj.encode(re)
            print('R %s ok %d %s | %s' % (parts[1], buf.read_index, bytes(re.data).hex() or '-', ' '.join(out)))
    except Exception as e:
        msg = (type(e).__name__ + ': ' + str(e)).replace('\n', ' ')
        print('R %s err %s' % (parts[1] if len(parts) > 1 else '-', msg[:300]))
    sys.stdout.flush()
