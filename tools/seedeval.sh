#!/bin/bash
# seedeval.sh <property> <dir-with-patch.diff-demo.sh> [tier]
# Confirms a seeded defect against /repo HEAD in scratch worktrees (build, baseline tests, demo
# 1/0) and runs ./check <property> against the mutated worktree. Prints one summary line.
set -u
P=$1; D=$2; TIER=${3:-quick}
export GOFLAGS=-mod=mod GOPROXY=off
W=/tmp/seedwt-$$
mkdir -p $W
git -C /repo worktree add -q --detach $W/clean HEAD
git -C /repo worktree add -q --detach $W/mut HEAD
cleanup() { git -C /repo worktree remove --force $W/clean 2>/dev/null; git -C /repo worktree remove --force $W/mut 2>/dev/null; rm -rf $W; }
trap cleanup EXIT
if ! git -C $W/mut apply $D/patch.diff 2>$W/apply.err; then
  if ! git -C $W/mut apply -3 $D/patch.diff 2>>$W/apply.err; then echo "SEED $P $(basename $D) apply=FAIL $(head -c 200 $W/apply.err)"; exit 0; fi
fi
( cd $W/mut && go build ./... && go test -vet=off -count=1 ./... ) >$W/test.log 2>&1 && T=pass || T=FAIL
bash $D/demo.sh $W/mut >$W/demo-mut.log 2>&1; DM=$?
bash $D/demo.sh $W/clean >$W/demo-clean.log 2>&1; DC=$?
cd "$(dirname "$0")/.."
VERIF_REPO=$W/mut ./check $P --tier $TIER >$W/check.log 2>&1; RC=$?
V=$(grep -m1 -A1 '^VIOLATION' $W/check.log | tail -1 | cut -c1-220)
echo "SEED $P $(basename $D) tests=$T demo_mut=$DM demo_clean=$DC check_rc=$RC :: $V"
mkdir -p /tmp/seedlogs; cp $W/check.log /tmp/seedlogs/$P-$(basename $D).log
