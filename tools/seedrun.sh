#!/bin/bash
# Re-runs every kept seeded defect (/verif/seeded/*) against scratch worktrees of /repo HEAD.
cd "$(dirname "$0")/.."
for d in seeded/*/; do
  p=$(python3 -c "import json,sys; print(json.load(open('$d/meta.json'))['property'])")
  tools/seedeval.sh $p $(realpath $d) ${1:-quick}
done
