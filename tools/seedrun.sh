#!/bin/bash
# Re-runs every kept seeded defect (/verif/seeded/<id>/, not seeded/obsolete) against scratch
# worktrees of /repo HEAD; SEEDRUN_JOBS of them at a time (default 1).
cd "$(dirname "$0")/.."
for d in seeded/*/; do
  [ -f "$d/meta.json" ] || continue
  p=$(python3 -c "import json,sys; print(json.load(open('$d/meta.json'))['property'])")
  echo "$p $(realpath $d)"
done | xargs -P "${SEEDRUN_JOBS:-1}" -L 1 sh -c 'tools/seedeval.sh $0 $1 '"${1:-quick}"
