#!/bin/bash
# Runs the repository's pinned baseline (guard off = plain tree) and compares with BASELINE.json.
cd /repo && GOFLAGS=-mod=mod GOPROXY=off go test -json -vet=off -count=1 -timeout 25m ./... > /tmp/baseline.json 2>/dev/null
python3 - <<'PY'
import json
want=set(json.load(open('/root/.vp/BASELINE.json'))['stable_pass'])
got=set()
for l in open('/tmp/baseline.json'):
    try: e=json.loads(l)
    except: continue
    if e.get('Action')=='pass' and e.get('Test'):
        got.add(e['Package']+'::'+e['Test'])
missing=want-got
print("baseline: %d/%d pass, missing: %s"%(len(want&got),len(want),sorted(missing)[:5]))
raise SystemExit(1 if missing else 0)
PY
