// Package pbt is the glue between rapid, the per-property oracles, the known-findings
// file and the evidence/replay files the ./check driver collects.
package pbt

import (
	"crypto/sha256"
	"encoding/hex"
	"encoding/json"
	"fmt"
	"os"
	"path/filepath"
	"sort"
	"strconv"
	"strings"
	"sync"
	"testing"
	"time"

	"pgregory.net/rapid"
)

var stdout = os.Stdout

func init() { stdout = os.Stdout }

// Out is the process's real standard output (captured before anything redirects os.Stdout).
func Out() *os.File { return stdout }

func printf(format string, args ...any) { fmt.Fprintf(stdout, format, args...) }

// Root is the /verif directory (overridable for tests of the harness itself).
func Root() string {
	if r := os.Getenv("VERIF_ROOT"); r != "" {
		return r
	}
	return "/verif"
}

// Tier returns "quick" or "thorough".
func Tier() string {
	if os.Getenv("VERIF_TIER") == "thorough" {
		return "thorough"
	}
	return "quick"
}

// Thorough reports whether the thorough tier is running.
func Thorough() bool { return Tier() == "thorough" }

// Seed returns VERIF_SEED (0 remapped to 1).
func Seed() int64 {
	s, _ := strconv.ParseInt(os.Getenv("VERIF_SEED"), 10, 64)
	if s == 0 {
		s = 1
	}
	return s
}

// Shard returns (index, count) of this process within the check.
func Shard() (int, int) {
	i, _ := strconv.Atoi(os.Getenv("VERIF_SHARD"))
	n, _ := strconv.Atoi(os.Getenv("VERIF_SHARDS"))
	if n <= 0 {
		n = 1
	}
	return i, n
}

// EnvInt reads an integer knob set by the driver.
func EnvInt(name string, def int) int {
	if v, err := strconv.Atoi(os.Getenv(name)); err == nil {
		return v
	}
	return def
}

// Finding is one entry of known_findings.json.
type Finding struct {
	Property  string          `json:"property"`
	AlsoProps []string        `json:"also_properties,omitempty"` // other properties whose checks meet the same root cause
	ID        string          `json:"id"`
	Status    string          `json:"status"` // open | fixed
	What      string          `json:"what"`
	Signature string          `json:"signature"`
	Also      []string        `json:"also,omitempty"`  // further signatures of the same root cause
	Avoid     []string        `json:"avoid,omitempty"` // generator tags excluded while the finding is open
	Commit    string          `json:"commit,omitempty"`
	Repro     json.RawMessage `json:"repro,omitempty"`
	Exclude   string          `json:"exclude,omitempty"`
}

var (
	findingsOnce sync.Once
	findings     []Finding
)

// Findings loads the committed known-findings file (never written at run time).
func Findings() []Finding {
	findingsOnce.Do(func() {
		b, err := os.ReadFile(filepath.Join(Root(), "known_findings.json"))
		if err != nil {
			return
		}
		var doc struct {
			Findings []Finding `json:"findings"`
		}
		if err := json.Unmarshal(b, &doc); err != nil {
			panic("known_findings.json: " + err.Error())
		}
		findings = doc.Findings
	})
	return findings
}

// Violation is one failed oracle evaluation.
type Violation struct {
	Signature string `json:"signature"` // root-cause oriented; matched against open findings
	Detail    string `json:"detail"`
	// Fatal: the process cannot go on after this one (a call that never returns): the case is
	// saved and reported at once, without shrinking.
	Fatal bool `json:"-"`
	// External marks a verdict that involved a child process or a toolchain: when it does not
	// reproduce it stays inconclusive even under a collector declared pure.
	External bool `json:"-"`
}

func (v Violation) String() string { return v.Signature + ": " + v.Detail }

// Collector accumulates what a run covered.
type Collector struct {
	mu         sync.Mutex
	ID         string
	Level      string
	Rule       string
	Assume     []string
	start      time.Time
	evals      int
	nontrivial map[string]struct{}
	samples    []any
	classes    map[string]int
	knownHits  map[string]int
	knownOpen  map[string]Finding // signature -> finding (open, this property)
	replayed   []string
	lastFail   *failRec
	violations int
	extra      map[string]any
	maxSamples int
	survey     map[string]*surveyRec
	curTags    []string
	recheck    func(kase any) []Violation
	pure       bool
	ring       []any    // the last cases evaluated in this process, oldest first
	firstFail  *failRec // the first failure of the run, before shrinking, with the calls before it
}

// SetPure declares that the oracle only calls deterministic in-process functions of the code
// under test (no toolchain, no child process, no clock). A failure that does not reproduce when
// the same case is evaluated again is then not noise: the functions returned the violating
// result, and what they return for an input depends on the calls made before it. finish looks
// for the shortest run of preceding cases that brings the failure back (saved as "history" in
// the replay file) and reports the violation in either case.
func (c *Collector) SetPure() { c.pure = true }

const ringSize = 12

// SetRecheck installs the oracle used to confirm a shrunk counterexample once more before it
// is reported: a failure that does not reproduce (machine load, a killed compiler) must end
// as "inconclusive", never as a VIOLATION.
func (c *Collector) SetRecheck(f func(kase any) []Violation) { c.recheck = f }

type surveyRec struct {
	N      int
	Detail string
	Case   any
	Inter  map[string]bool // tags present in every failing case
}

// SetTags records the feature tags of the case about to be reported (survey mode only).
func (c *Collector) SetTags(tags []string) { c.mu.Lock(); c.curTags = tags; c.mu.Unlock() }

type failRec struct {
	Hist []any // pure collectors: the cases evaluated before this one, oldest first
	Need bool  // the failure only comes back after evaluating Hist: keep it in the replay file
	Case any
	V    Violation
}

// New creates the collector for property id.
func New(id, level, rule string, assumptions ...string) *Collector {
	c := &Collector{ID: id, Level: level, Rule: rule, Assume: assumptions, start: time.Now(),
		nontrivial: map[string]struct{}{}, classes: map[string]int{}, knownHits: map[string]int{},
		knownOpen: map[string]Finding{}, extra: map[string]any{}, maxSamples: 4}
	for _, f := range Findings() {
		if f.Status == "open" && (f.Property == id || hasStr(f.AlsoProps, id)) {
			c.knownOpen[f.Signature] = f
			for _, a := range f.Also {
				c.knownOpen[a] = f
			}
		}
	}
	return c
}

// Open reports whether an open finding with this signature is listed for the property.
func (c *Collector) Open(sig string) bool { _, ok := c.knownOpen[sig]; return ok }

// OpenAny reports whether any open finding signature starts with the prefix.
func (c *Collector) OpenAny(prefix string) bool {
	for s := range c.knownOpen {
		if strings.HasPrefix(s, prefix) {
			return true
		}
	}
	return false
}

// Eval counts one oracle evaluation.
func (c *Collector) Eval() { c.mu.Lock(); c.evals++; c.mu.Unlock() }

// EvalN counts n oracle evaluations.
func (c *Collector) EvalN(n int) { c.mu.Lock(); c.evals += n; c.mu.Unlock() }

// Hash is a short stable hash of arbitrary parts.
func Hash(parts ...any) string {
	h := sha256.New()
	for _, p := range parts {
		switch v := p.(type) {
		case string:
			h.Write([]byte(v))
		case []byte:
			h.Write(v)
		default:
			b, _ := json.Marshal(v)
			h.Write(b)
		}
		h.Write([]byte{0})
	}
	return hex.EncodeToString(h.Sum(nil)[:8])
}

// NonTrivial records a distinct non-trivial case by hash and keeps a few samples.
func (c *Collector) NonTrivial(hash string, sample func() any) {
	c.mu.Lock()
	defer c.mu.Unlock()
	if _, ok := c.nontrivial[hash]; ok {
		return
	}
	c.nontrivial[hash] = struct{}{}
	n := len(c.nontrivial)
	// keep samples spread over the run: 1st, 10th, 100th, 1000th ...
	if len(c.samples) < c.maxSamples && (n == 1 || n == 7 || n == 50 || n == 400 || n == 3000) && sample != nil {
		c.samples = append(c.samples, sample())
	}
}

// Class counts a label (distribution of generated cases).
func (c *Collector) Class(label string) { c.mu.Lock(); c.classes[label]++; c.mu.Unlock() }

// ClassN counts a label n times.
func (c *Collector) ClassN(label string, n int) { c.mu.Lock(); c.classes[label] += n; c.mu.Unlock() }

// Set stores an extra coverage key.
func (c *Collector) Set(k string, v any) { c.mu.Lock(); c.extra[k] = v; c.mu.Unlock() }

// TB is the part of rapid.T / testing.T the collector needs.
type TB interface {
	Fatalf(format string, args ...any)
	Logf(format string, args ...any)
}

// Report handles the violations of one case: those matching an open finding are counted and
// ignored (the search goes on behind them); the first other one fails the case.
func (c *Collector) Report(t TB, kase any, vs []Violation) {
	if os.Getenv("VERIF_SURVEY") != "" {
		c.mu.Lock()
		for _, v := range vs {
			if c.survey == nil {
				c.survey = map[string]*surveyRec{}
			}
			r := c.survey[v.Signature]
			if r == nil {
				r = &surveyRec{Detail: v.Detail, Case: kase, Inter: map[string]bool{}}
				for _, t := range c.curTags {
					r.Inter[t] = true
				}
				c.survey[v.Signature] = r
			} else {
				cur := map[string]bool{}
				for _, t := range c.curTags {
					cur[t] = true
				}
				for t := range r.Inter {
					if !cur[t] {
						delete(r.Inter, t)
					}
				}
			}
			r.N++
		}
		c.mu.Unlock()
		return
	}
	var hist []any
	if c.pure {
		c.mu.Lock()
		hist = append([]any{}, c.ring...)
		c.ring = append(c.ring, kase)
		if len(c.ring) > ringSize {
			c.ring = c.ring[len(c.ring)-ringSize:]
		}
		c.mu.Unlock()
	}
	for _, v := range vs {
		if f, ok := c.knownOpen[v.Signature]; ok {
			c.mu.Lock()
			c.knownHits[f.ID]++
			c.mu.Unlock()
			continue
		}
		c.mu.Lock()
		c.lastFail = &failRec{Case: kase, V: v, Hist: hist}
		if c.firstFail == nil {
			c.firstFail = c.lastFail
		}
		c.mu.Unlock()
		if v.Fatal {
			c.violations++
			c.saveReplay()
			c.writeEvidence()
			os.Exit(1)
		}
		t.Fatalf("VIOLATED %s: %s", c.ID, v)
	}
}

// Check runs prop under rapid; on failure the minimal case (the last one rapid ran) is saved
// as a replay file and a VIOLATION line is printed.
func (c *Collector) Check(t *testing.T, prop func(rt *rapid.T)) {
	defer c.finish(t)
	if t.Failed() {
		return // a replayed regression already failed: report that, do not search further
	}
	rapid.Check(t, prop)
}

// Direct runs a non-rapid (replay / enumerated) body with the same bookkeeping.
func (c *Collector) Direct(t *testing.T, body func()) {
	defer c.finish(t)
	body()
}

// ReplayKnown re-executes the repro of every open finding of this property through eval and
// prints KNOWN-FINDING for those that still fail with the recorded signature. Fixed findings'
// repros must pass.
func (c *Collector) ReplayKnown(t *testing.T, eval func(repro json.RawMessage) []Violation) {
	if si, _ := Shard(); si != 0 {
		return // the replay tier runs once per check, in shard 0
	}
	for _, f := range Findings() {
		if f.Property != c.ID || len(f.Repro) == 0 {
			continue
		}
		vs := eval(f.Repro)
		c.Eval()
		switch f.Status {
		case "open":
			hit := false
			same := func(sig string) bool {
				if sig == f.Signature {
					return true
				}
				for _, a := range f.Also {
					if a == sig {
						return true
					}
				}
				return false
			}
			for _, v := range vs {
				if same(v.Signature) {
					hit = true
				}
			}
			if hit {
				printf("KNOWN-FINDING: property=%s %s [%s] %s\n", c.ID, f.ID, f.Signature, f.What)
				c.replayed = append(c.replayed, f.ID)
			} else {
				printf("NOTE: property=%s listed finding %s no longer reproduces\n", c.ID, f.ID)
			}
			// any other violation on the repro goes through the normal path
			var rest []Violation
			for _, v := range vs {
				if !same(v.Signature) {
					rest = append(rest, v)
				}
			}
			c.Report(directTB{t}, json.RawMessage(f.Repro), rest)
		case "fixed":
			c.Report(directTB{t}, json.RawMessage(f.Repro), vs)
		}
	}
}

type directTB struct{ t *testing.T }

func (d directTB) Fatalf(format string, args ...any) { d.t.Errorf(format, args...) }
func (d directTB) Logf(format string, args ...any)   { d.t.Logf(format, args...) }

// DirectTB adapts *testing.T so that a violation does not abort the remaining direct cases.
func DirectTB(t *testing.T) TB { return directTB{t} }

func (c *Collector) finish(t *testing.T) {
	if r := recover(); r != nil {
		// a harness panic is infrastructure, not a verdict
		printf("HARNESS-PANIC property=%s %v\n", c.ID, r)
		c.writeEvidence()
		panic(r)
	}
	if c.survey != nil {
		var sigs []string
		for s := range c.survey {
			sigs = append(sigs, s)
		}
		sort.Strings(sigs)
		for _, s := range sigs {
			r := c.survey[s]
			b, _ := json.Marshal(r.Case)
			if len(b) > 1500 && os.Getenv("VERIF_SURVEY") != "full" {
				b = append(b[:1500], []byte("...")...)
			}
			var inter []string
			for t := range r.Inter {
				inter = append(inter, t)
			}
			sort.Strings(inter)
			printf("SURVEY %s n=%d known=%v\n   %s\n   always=%s\n   case=%s\n", s, r.N, c.Open(s), r.Detail, strings.Join(inter, " "), b)
		}
	}
	if c.lastFail != nil && t.Failed() && c.recheck != nil {
		confirmed := false
		func() {
			defer func() { _ = recover() }() // replayed raw cases have another type: keep them as they are
			confirmed = true
			for try := 0; try < 2; try++ {
				again := c.recheck(c.lastFail.Case)
				same := false
				for _, v := range again {
					if v.Signature == c.lastFail.V.Signature {
						same = true
					}
				}
				if !same {
					confirmed = false
					return
				}
			}
		}()
		if !confirmed && c.pure && !c.lastFail.V.External {
			c.historyDependent()
		} else if !confirmed {
			printf("NOT-REPRODUCED property=%s a failure (%s) did not reproduce when re-evaluated twice; treated as inconclusive\n", c.ID, c.lastFail.V.Signature)
			c.writeEvidence()
			os.Exit(2)
		}
	}
	if c.lastFail != nil && t.Failed() {
		c.violations++
		c.saveReplay()
	} else if t.Failed() {
		printf("HARNESS-FAIL property=%s test failed without a recorded violation\n", c.ID)
	}
	c.writeEvidence()
}

// historyDependent handles a failure of a pure oracle that does not come back when its case
// is evaluated on its own: the result for that input depends on earlier calls in the process.
// It replays ever longer runs of the cases that preceded the failure (first the original
// failure, then the shrunk one) until the failure returns, and keeps that run as the replay's
// history. When no run of the remembered cases brings it back, the violation observed is
// reported as it was seen (the functions did return it), marked as not reproducible alone.
func (c *Collector) historyDependent() {
	same := func(vs []Violation, sig string) bool {
		for _, v := range vs {
			if v.Signature == sig {
				return true
			}
		}
		return false
	}
	for _, f := range []*failRec{c.firstFail, c.lastFail} {
		if f == nil {
			continue
		}
		for k := 1; k <= len(f.Hist); k++ {
			run := f.Hist[len(f.Hist)-k:]
			ok := false
			func() {
				defer func() { _ = recover() }()
				for _, h := range run {
					c.recheck(h)
				}
				ok = same(c.recheck(f.Case), f.V.Signature)
			}()
			if ok {
				c.lastFail = &failRec{Case: f.Case, V: f.V, Hist: append([]any{}, run...), Need: true}
				c.lastFail.V.Detail += fmt.Sprintf(" [only after %d earlier call(s) in the same process: the result depends on process history]", k)
				return
			}
		}
	}
	c.lastFail = &failRec{Case: c.firstFail.Case, V: c.firstFail.V}
	c.lastFail.V.Detail += " [observed once; the same input gives another result when evaluated again: the result depends on process history]"
}

func (c *Collector) saveReplay() {
	{
		dir := filepath.Join(Root(), "replays", c.ID)
		_ = os.MkdirAll(dir, 0o755)
		rec := map[string]any{"property": c.ID, "signature": c.lastFail.V.Signature, "detail": c.lastFail.V.Detail, "case": c.lastFail.Case}
		if c.lastFail.Need {
			rec["history"] = c.lastFail.Hist
		}
		b, _ := json.MarshalIndent(rec, "", " ")
		path := filepath.Join(dir, Hash(b)+".json")
		_ = os.WriteFile(path, b, 0o644)
		printf("VIOLATION property=%s replay=%s\n", c.ID, path)
		printf("  %s\n", c.lastFail.V)
	}
}

func (c *Collector) writeEvidence() {
	c.mu.Lock()
	defer c.mu.Unlock()
	hashes := make([]string, 0, len(c.nontrivial))
	for h := range c.nontrivial {
		hashes = append(hashes, h)
	}
	sort.Strings(hashes)
	cov := map[string]any{
		"evaluations":             c.evals,
		"distinct_nontrivial":     len(c.nontrivial),
		"rule":                    c.Rule,
		"samples":                 c.samples,
		"classes":                 c.classes,
		"known_finding_hits":      c.knownHits,
		"known_findings_replayed": c.replayed,
	}
	for k, v := range c.extra {
		cov[k] = v
	}
	si, sn := Shard()
	ev := map[string]any{
		"property_id": c.ID,
		"tier":        Tier(),
		"seed":        Seed(),
		"level":       c.Level,
		"coverage":    cov,
		"assumptions": c.Assume,
		"wall_s":      time.Since(c.start).Seconds(),
		"violations":  c.violations,
		"_hashes":     hashes,
		"_shard":      si,
		"_shards":     sn,
	}
	b, _ := json.MarshalIndent(ev, "", " ")
	dir := filepath.Join(Root(), "evidence")
	_ = os.MkdirAll(dir, 0o755)
	name := fmt.Sprintf("%s.shard%d.json", c.ID, si)
	if p := os.Getenv("VERIF_EVIDENCE_PART"); p != "" {
		name = p
	}
	_ = os.WriteFile(filepath.Join(dir, name), b, 0o644)
}

// LoadReplay reads the "case" member of a replay file (or a bare case).
func LoadReplay(path string) (json.RawMessage, error) {
	b, err := os.ReadFile(path)
	if err != nil {
		return nil, err
	}
	var rec struct {
		Case json.RawMessage `json:"case"`
	}
	if err := json.Unmarshal(b, &rec); err == nil && len(rec.Case) > 0 {
		return rec.Case, nil
	}
	return b, nil
}

// LoadReplayHistory reads the "history" member of a replay file: the cases to evaluate, in
// order, before the case itself (history-dependent failures of pure oracles).
func LoadReplayHistory(path string) []json.RawMessage {
	b, err := os.ReadFile(path)
	if err != nil {
		return nil
	}
	var rec struct {
		History []json.RawMessage `json:"history"`
	}
	_ = json.Unmarshal(b, &rec)
	return rec.History
}

// ReplayPath is set by the driver for --replay.
func ReplayPath() string { return os.Getenv("VERIF_REPLAY") }

// AvoidTags returns the generator tags excluded by the open findings of the given properties
// (empty list = all properties).
func AvoidTags(props ...string) map[string]bool {
	out := map[string]bool{}
	for _, f := range Findings() {
		if f.Status != "open" {
			continue
		}
		ok := len(props) == 0
		for _, p := range props {
			if p == f.Property || hasStr(f.AlsoProps, p) {
				ok = true
			}
		}
		if !ok {
			continue
		}
		for _, a := range f.Avoid {
			out[a] = true
		}
	}
	return out
}

func hasStr(l []string, x string) bool {
	for _, y := range l {
		if y == x {
			return true
		}
	}
	return false
}
