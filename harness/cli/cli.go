// Package cli runs the built fin-protoc binary and the C driver of the shared library.
package cli

import (
	"bytes"
	"context"
	"fmt"
	"os"
	"os/exec"
	"path/filepath"
	"sort"
	"sync/atomic"
	"syscall"
	"time"
)

// Bin is the CLI built by ./check from /repo's working tree.
func Bin() string { return os.Getenv("VERIF_CLI") }

// Result of one process.
type Result struct {
	Stdout, Stderr []byte
	Exit           int // exit status; -1 when killed by a signal
	Signal         string
	TimedOut       bool
}

var seq atomic.Int64

// Scratch creates a fresh directory under the run directory.
func Scratch(prefix string) string {
	base := os.Getenv("VERIF_RUNDIR")
	if base == "" {
		base = os.TempDir()
	}
	d := filepath.Join(base, fmt.Sprintf("%s-%d-%d", prefix, os.Getpid(), seq.Add(1)))
	if err := os.MkdirAll(d, 0o755); err != nil {
		panic(err)
	}
	return d
}

// Run executes a command with a timeout in dir.
func Run(dir string, timeout time.Duration, stdin []byte, env []string, name string, args ...string) Result {
	ctx, cancel := context.WithTimeout(context.Background(), timeout)
	defer cancel()
	cmd := exec.CommandContext(ctx, name, args...)
	cmd.Dir = dir
	if env != nil {
		cmd.Env = append(os.Environ(), env...)
	}
	var so, se bytes.Buffer
	cmd.Stdout, cmd.Stderr = &so, &se
	if stdin != nil {
		cmd.Stdin = bytes.NewReader(stdin)
	}
	err := cmd.Run()
	r := Result{Stdout: so.Bytes(), Stderr: se.Bytes()}
	if ctx.Err() == context.DeadlineExceeded {
		r.TimedOut = true
	}
	if err != nil {
		if ee, ok := err.(*exec.ExitError); ok {
			r.Exit = ee.ExitCode()
			if ws, ok := ee.Sys().(syscall.WaitStatus); ok && ws.Signaled() {
				r.Signal = ws.Signal().String()
				r.Exit = -1
			}
		} else {
			r.Exit = -2
			r.Stderr = append(r.Stderr, []byte(err.Error())...)
		}
	}
	return r
}

// Flags of the compile command per language.
var Flags = map[string]string{"lua": "-l", "rust": "-r", "go": "-g", "java": "-j", "python": "-p", "cpp": "-c"}

// ReadTree returns all regular files under dir (relative path -> content).
func ReadTree(dir string) map[string][]byte {
	out := map[string][]byte{}
	_ = filepath.Walk(dir, func(p string, info os.FileInfo, err error) error {
		if err != nil || info.IsDir() {
			return nil
		}
		rel, _ := filepath.Rel(dir, p)
		b, _ := os.ReadFile(p)
		out[rel] = b
		return nil
	})
	return out
}

// Names lists the keys of a tree sorted.
func Names(t map[string][]byte) []string {
	var n []string
	for k := range t {
		n = append(n, k)
	}
	sort.Strings(n)
	return n
}

// ParseLibOutput splits the C driver's "<len>\n<bytes>\n" records.
func ParseLibOutput(b []byte) ([]string, bool) {
	var out []string
	for len(b) > 0 {
		i := bytes.IndexByte(b, '\n')
		if i < 0 {
			return out, false
		}
		n := 0
		for _, c := range b[:i] {
			if c < '0' || c > '9' {
				return out, false
			}
			n = n*10 + int(c-'0')
		}
		b = b[i+1:]
		if len(b) < n+1 {
			return out, false
		}
		out = append(out, string(b[:n]))
		b = b[n+1:]
	}
	return out, true
}
