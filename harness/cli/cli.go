// Package cli runs the built fin-protoc binary and the C driver of the shared library.
package cli

import (
	"bytes"
	"context"
	"fmt"
	"os"
	"os/exec"
	"path/filepath"
	"sort"
	"sync/atomic"
	"syscall"
	"time"
)

// Bin is the CLI built by ./check from /repo's working tree.
func Bin() string { return os.Getenv("VERIF_CLI") }

// Result of one process.
type Result struct {
	Stdout, Stderr []byte
	Exit           int // exit status; -1 when killed by a signal
	Signal         string
	TimedOut       bool
}

var seq atomic.Int64

// Scratch creates a fresh directory under the run directory.
func Scratch(prefix string) string {
	base := os.Getenv("VERIF_RUNDIR")
	if base == "" {
		base = os.TempDir()
	}
	d := filepath.Join(base, fmt.Sprintf("%s-%d-%d", prefix, os.Getpid(), seq.Add(1)))
	if err := os.MkdirAll(d, 0o755); err != nil {
		panic(err)
	}
	return d
}

// Run executes a command with a timeout in dir.
func Run(dir string, timeout time.Duration, stdin []byte, env []string, name string, args ...string) Result {
	ctx, cancel := context.WithTimeout(context.Background(), timeout)
	defer cancel()
	cmd := exec.CommandContext(ctx, name, args...)
	cmd.Dir = dir
	if env != nil {
		cmd.Env = append(os.Environ(), env...)
	}
	var so, se bytes.Buffer
	cmd.Stdout, cmd.Stderr = &so, &se
	if stdin != nil {
		cmd.Stdin = bytes.NewReader(stdin)
	}
	err := cmd.Run()
	r := Result{Stdout: so.Bytes(), Stderr: se.Bytes()}
	if ctx.Err() == context.DeadlineExceeded {
		r.TimedOut = true
	}
	if err != nil {
		if ee, ok := err.(*exec.ExitError); ok {
			r.Exit = ee.ExitCode()
			if ws, ok := ee.Sys().(syscall.WaitStatus); ok && ws.Signaled() {
				r.Signal = ws.Signal().String()
				r.Exit = -1
			}
		} else {
			r.Exit = -2
			r.Stderr = append(r.Stderr, []byte(err.Error())...)
		}
	}
	return r
}

// Flags of the compile command per language.
var Flags = map[string]string{"lua": "-l", "rust": "-r", "go": "-g", "java": "-j", "python": "-p", "cpp": "-c"}

// LongFlags are the long spellings of the same flags.
var LongFlags = map[string]string{"lua": "--lua_output", "rust": "--rs_output", "go": "--go_output", "java": "--java_output", "python": "--py_output", "cpp": "--cpp_output", "file": "--file", "dsl": "--dsl"}

// ShortFlags: every flag of both commands by a neutral name.
var ShortFlags = map[string]string{"lua": "-l", "rust": "-r", "go": "-g", "java": "-j", "python": "-p", "cpp": "-c", "file": "-f", "dsl": "-d"}

// FlagArgs spells one flag with its value in one of the forms the flag library accepts:
// 0 `-g v`, 1 `--go_output v`, 2 `--go_output=v`, 3 `-g=v` (4 `-gv`, only for values that do
// not start with `=` or `-`).
func FlagArgs(name string, style int, value string) []string {
	switch style {
	case 1:
		return []string{LongFlags[name], value}
	case 2:
		return []string{LongFlags[name] + "=" + value}
	case 3:
		return []string{ShortFlags[name] + "=" + value}
	case 4:
		if value != "" && value[0] != '=' && value[0] != '-' {
			return []string{ShortFlags[name] + value}
		}
	}
	return []string{ShortFlags[name], value}
}

// Respell rewrites a command line written with short flags (`-g dir`) into another of the
// spellings the flag library accepts, chosen per flag by a hash of salt (so a case is always
// spelled the same way). Half of the command lines are left as they are.
func Respell(args []string, salt string) []string {
	h := func(i int) int {
		x := uint32(2166136261)
		for _, c := range []byte(fmt.Sprintf("%s#%d", salt, i)) {
			x = (x ^ uint32(c)) * 16777619
		}
		return int(x>>8) & 0xffff
	}
	if h(-1)%2 == 0 {
		return args
	}
	byShort := map[string]string{}
	for n, f := range ShortFlags {
		byShort[f] = n
	}
	var out []string
	for i := 0; i < len(args); i++ {
		if n, ok := byShort[args[i]]; ok && i+1 < len(args) {
			out = append(out, FlagArgs(n, h(i)%5, args[i+1])...)
			i++
			continue
		}
		out = append(out, args[i])
	}
	return out
}

// ReadTree returns all regular files under dir (relative path -> content).
func ReadTree(dir string) map[string][]byte {
	out := map[string][]byte{}
	_ = filepath.Walk(dir, func(p string, info os.FileInfo, err error) error {
		if err != nil || info.IsDir() {
			return nil
		}
		rel, _ := filepath.Rel(dir, p)
		b, _ := os.ReadFile(p)
		out[rel] = b
		return nil
	})
	return out
}

// Names lists the keys of a tree sorted.
func Names(t map[string][]byte) []string {
	var n []string
	for k := range t {
		n = append(n, k)
	}
	sort.Strings(n)
	return n
}

// ParseLibOutput splits the C driver's "<len>\n<bytes>\n" records.
func ParseLibOutput(b []byte) ([]string, bool) {
	var out []string
	for len(b) > 0 {
		i := bytes.IndexByte(b, '\n')
		if i < 0 {
			return out, false
		}
		n := 0
		for _, c := range b[:i] {
			if c < '0' || c > '9' {
				return out, false
			}
			n = n*10 + int(c-'0')
		}
		b = b[i+1:]
		if len(b) < n+1 {
			return out, false
		}
		out = append(out, string(b[:n]))
		b = b[n+1:]
	}
	return out, true
}
