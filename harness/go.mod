module github.com/xinchentechnote/fin-protoc/verifharness

go 1.24.2

require (
	github.com/antlr4-go/antlr/v4 v4.13.0
	github.com/iancoleman/strcase v0.3.0
	github.com/xinchentechnote/fin-protoc v0.0.0
	pgregory.net/rapid v1.3.0
)

require golang.org/x/exp v0.0.0-20230515195305-f3d0a9c9a5cc // indirect

replace github.com/xinchentechnote/fin-protoc => /repo
