package props

import (
	"encoding/hex"
	"fmt"
	"strings"
	"testing"

	"github.com/xinchentechnote/fin-protoc/verifharness/cli"
	"github.com/xinchentechnote/fin-protoc/verifharness/dsl"
	"github.com/xinchentechnote/fin-protoc/verifharness/pbt"
	"github.com/xinchentechnote/fin-protoc/verifharness/ref"
	"github.com/xinchentechnote/fin-protoc/verifharness/xlang"
	"pgregory.net/rapid"
)

// c05Case: a program whose root has a match field; Msgs[i] exercises key Keys[i] (in-table) and
// Probes are byte strings with an out-of-table key that every decoder must reject.
type c05Probe struct {
	Packet string `json:"packet"`
	Hex    string `json:"hex"`
	Key    string `json:"key"`
}

type c05Case struct {
	xCase
	Probes []c05Probe `json:"probes"`
}

// matchSites lists (packet, match field) pairs of top-level packets.
func matchSites(p *dsl.Program) (out []struct {
	K *dsl.Packet
	F *dsl.Field
}) {
	for _, k := range p.Packets {
		for _, f := range k.Fields {
			if f.Kind == dsl.KMatch {
				out = append(out, struct {
					K *dsl.Packet
					F *dsl.Field
				}{k, f})
			}
		}
	}
	return
}

// messageForKey builds a message of packet k that selects pair/key.
func messageForKey(rt *rapid.T, p *dsl.Program, k *dsl.Packet, m *dsl.Field, pr dsl.Pair, key string, label string) dsl.Val {
	v := dsl.GenMessage(rt, p, k, dsl.ValCfg{MaxList: 2, MaxStr: 12}, label)
	for i, f := range k.Fields {
		if f.Name == m.Key {
			v.F[i] = dsl.KeyToVal(f, key)
		}
		if f == m {
			pv := dsl.GenMessage(rt, p, p.PacketByName(pr.Target), dsl.ValCfg{MaxList: 2, MaxStr: 12}, label+"_payload")
			pv.T = pr.Target
			v.F[i] = pv
		}
	}
	return v
}

func outOfTableKeys(m *dsl.Field, kf *dsl.Field) []string {
	used := map[string]bool{}
	str := false
	for _, pr := range m.Pairs {
		for _, k := range pr.Keys {
			used[k] = true
			if strings.HasPrefix(k, "\"") {
				str = true
			}
		}
	}
	var cands []string
	if str {
		cands = []string{"\"zz\"", "\"Q\"", "\"\"", "\"A \""}
		if kf.Kind == dsl.KFixed {
			cands = []string{"\"zz\"", "\"Q\"", "\"q9\""}
			var fit []string
			for _, c := range cands {
				if len(c)-2 <= kf.N {
					fit = append(fit, c)
				}
			}
			cands = fit
		}
	} else {
		hi := maskOf(kf.Type)
		if strings.HasPrefix(kf.Type, "i") {
			hi >>= 1
		}
		set := []uint64{0, 1, hi, hi - 1, 7, 100}
		for _, pr := range m.Pairs {
			for _, k := range pr.Keys {
				var u uint64
				fmt.Sscan(k, &u)
				if u > 0 {
					set = append(set, u-1)
				}
				if u < hi {
					set = append(set, u+1)
				}
			}
		}
		for _, u := range set {
			cands = append(cands, fmt.Sprint(u))
		}
	}
	var out []string
	seen := map[string]bool{}
	for _, c := range cands {
		if !used[c] && !seen[c] {
			seen[c] = true
			out = append(out, c)
		}
	}
	if len(out) > 4 {
		out = out[:4]
	}
	return out
}

func genC05(rt *rapid.T, cfg dsl.GenCfg) c05Case {
	p := dsl.GenProgram(rt, cfg)
	// a packet with two match fields, each selected by its own key field
	if !cfg.Avoid["match:two-per-packet"] && rapid.IntRange(0, 3).Draw(rt, "second_match") == 0 {
		dsl.AddSecondMatch(rt, p)
	}
	k := c05Case{xCase: xCase{Prog: p, Langs: append([]string{}, xlang.Codecs...)}}
	for si, s := range matchSites(p) {
		kf := s.K.FieldByName(s.F.Key)
		// every key of the table (bounded)
		n := 0
		for pi, pr := range s.F.Pairs {
			for ki, key := range pr.Keys {
				if n >= 8 {
					break
				}
				n++
				v := messageForKey(rt, p, s.K, s.F, pr, key, fmt.Sprintf("s%d_p%d_k%d", si, pi, ki))
				if lenFits(p, s.K, v) {
					k.Msgs = append(k.Msgs, xMsg{Packet: s.K.Name, Val: v})
				}
			}
		}
		// out-of-table probes: the bytes of a valid message with the key replaced, payload left in place
		pr := s.F.Pairs[0]
		for oi, key := range outOfTableKeys(s.F, kf) {
			v := messageForKey(rt, p, s.K, s.F, pr, key, fmt.Sprintf("s%d_out%d", si, oi))
			if !lenFits(p, s.K, v) {
				continue
			}
			b, _ := ref.Encode(p, s.K, v, nil)
			k.Probes = append(k.Probes, c05Probe{Packet: s.K.Name, Hex: hex.EncodeToString(b), Key: key})
		}
	}
	return k
}

func evalC05(k c05Case) []pbt.Violation {
	x := runCase(k.xCase, true)
	defer x.Cleanup()
	vs := commonViolations(k.xCase, x)
	for _, l := range k.Langs {
		lr := x.Langs[l]
		if lr == nil || lr.BuildErr != nil || lr.Crash != "" {
			continue
		}
		for i, m := range k.Msgs {
			want := hex.EncodeToString(x.Ref[i].Bytes[0])
			if r := lr.Enc[0][i]; !r.OK {
				vs = append(vs, pbt.Violation{Signature: "enc-error:" + l + ":" + errClass(r.Err), Detail: fmt.Sprintf("%s cannot encode a %s whose key selects a table entry: %s", l, m.Packet, clip(r.Err, 160))})
			} else if r.Hex != want {
				got, _ := hex.DecodeString(r.Hex)
				leaf := leafAt(x.Ref[i].Layout[0], max(0, firstDiffByte(got, x.Ref[i].Bytes[0])))
				vs = append(vs, pbt.Violation{Signature: "match-enc:" + l + ":" + leafClass(leaf), Detail: fmt.Sprintf("%s does not write the supplied payload as declared: got %s want %s", l, clip(r.Hex, 100), clip(want, 100))})
			}
			d := lr.Dec[0][i]
			if !d.OK {
				vs = append(vs, pbt.Violation{Signature: "match-dec-error:" + l + ":" + errClass(d.Err), Detail: fmt.Sprintf("%s decoder fails on a key that is in the table: %s", l, clip(d.Err, 200))})
			} else if d.Dump != x.Ref[i].Canon[0] {
				cls, dd := dumpDiff(k.Prog, k.Prog.PacketByName(m.Packet), d.Dump, x.Ref[i].Canon[0])
				vs = append(vs, pbt.Violation{Signature: "match-dispatch:" + l + ":" + cls, Detail: fmt.Sprintf("%s decoder does not instantiate the packet the table maps the key to: %s", l, dd)})
			}
		}
		// decoding into an object that already holds another message must dispatch afresh
		if len(k.Msgs) >= 2 && l != "rust" {
			cmds := []xlang.Cmd{{Op: "CKS", Arg: "0"}, {Op: "REUSE", Arg: "1"}}
			var idx []int
			for i := len(k.Msgs) - 1; i >= 0; i-- { // reverse order: a different key than the one decoded last
				cmds = append(cmds, xlang.Cmd{Op: "DEC", Packet: k.Msgs[i].Packet, Arg: hex.EncodeToString(x.Ref[i].Bytes[0])})
				idx = append(idx, i)
			}
			cmds = append(cmds, xlang.Cmd{Op: "REUSE", Arg: "0"})
			out, crash := lr.Built.Run(cmds)
			if crash != "" {
				vs = append(vs, pbt.Violation{Signature: "crash:" + l, Detail: crash})
			} else {
				for j, i := range idx {
					d := out[j+2]
					if !d.OK {
						vs = append(vs, pbt.Violation{Signature: "match-reuse-dec-error:" + l, Detail: fmt.Sprintf("%s: decoding into an object that held another message fails: %s", l, clip(d.Err, 160))})
					} else if got, want := ownPayloadTypes(k.Prog, k.Msgs[i].Packet, d.Dump), ownPayloadTypes(k.Prog, k.Msgs[i].Packet, x.Ref[i].Canon[0]); got != want {
						// only the dispatch is C05's business here: other members of a reused object are not compared
						vs = append(vs, pbt.Violation{Signature: "match-reuse-dispatch:" + l, Detail: fmt.Sprintf("%s: decoding a second message into an object that held another one instantiates payload packet(s) [%s], the table maps the key to [%s]", l, got, want)})
					}
				}
			}
		}
		if len(k.Probes) > 0 {
			cmds := []xlang.Cmd{{Op: "CKS", Arg: "0"}}
			for _, pr := range k.Probes {
				cmds = append(cmds, xlang.Cmd{Op: "DEC", Packet: pr.Packet, Arg: pr.Hex})
			}
			out, crash := lr.Built.Run(cmds)
			if crash != "" {
				vs = append(vs, pbt.Violation{Signature: "unmapped-key-crash:" + l, Detail: "decoding a message whose key is not in the table kills the process: " + crash})
				continue
			}
			for j, pr := range k.Probes {
				r := out[j+1]
				if r.OK {
					vs = append(vs, pbt.Violation{Signature: "unmapped-key-accepted:" + l, Detail: fmt.Sprintf("%s decoder accepts key %s that the table does not contain (consumed %d bytes, dump %s)", l, pr.Key, r.Consumed, clip(r.Dump, 120))})
				} else if strings.Contains(strings.ToLower(r.Err), "panic") && l != "rust" {
					// a Go panic recovered by the driver is a crash in a real caller
					vs = append(vs, pbt.Violation{Signature: "unmapped-key-crash:" + l, Detail: fmt.Sprintf("%s decoder panics on unmapped key %s: %s", l, pr.Key, clip(r.Err, 160))})
				}
			}
		}
	}
	return dedupe(vs)
}

func TestC05(t *testing.T) {
	c := pbt.New("C05", "exploration",
		"programs whose packets carry match fields: 1..5 alternatives, integer keys of each width (in range, incl. 0 and max), string keys on dynamic and fixed key fields, key lists, several keys per packet, alternatives of different sizes. For EVERY key of every table (bounded at 8 per table) a message with that key and the mapped payload is encoded (bytes == reference) and the canonical bytes decoded (dump must show the mapped packet as dynamic type with the right contents). For out-of-table keys (neighbours of table keys, 0, max, unused strings) the canonical bytes of a valid message with only the key replaced are decoded: the outcome must be a reported error (Go error, Rust None, Java/Python/C++ exception); ok (another packet chosen / payload skipped) or a dead process is a violation. Non-trivial = a table with >= 2 alternatives or a key list, with both in-table and out-of-table probes run; distinct = hash of the case; evaluations = (language, key) cells.",
		xAssume...)
	if p := pbt.ReplayPath(); p != "" {
		c.Direct(t, func() { k := loadCase[c05Case](t, p); c.Eval(); c.Report(pbt.DirectTB(t), k, evalC05(k)) })
		return
	}
	avoidAll := pbt.AvoidTags("C05")
	c.SetRecheck(func(k any) []pbt.Violation { return evalC05(k.(c05Case)) })
	replayKnownX(t, c, func(k c05Case) []pbt.Violation { return evalC05(k) })
	excluded := 0
	c.Check(t, func(rt *rapid.T) {
		langs := append([]string{}, xlang.Codecs...)
		if rapid.IntRange(0, 3).Draw(rt, "single_lang") == 0 {
			langs = []string{rapid.SampledFrom(xlang.Codecs).Draw(rt, "lang")}
		}
		k := genC05(rt, dsl.GenCfg{MaxPackets: 5, MinPackets: 2, MaxFields: 3, WantMatch: true, NoAttrFields: rapid.Bool().Draw(rt, "noattr"), Avoid: avoidFor(avoidAll, langs)})
		ok, ex := applicable(k.Prog, langs, avoidAll)
		excluded += len(ex)
		c.Set("excluded_cells", excluded)
		if len(ok) == 0 || len(matchSites(k.Prog)) == 0 {
			return
		}
		k.Langs = ok
		if cli.Bin() != "" && rapid.IntRange(0, 5).Draw(rt, "via_cli") == 0 {
			k.ViaCLI = true
			c.Class("files-written-by-cli-into-stale-directories")
		}
		if rapid.IntRange(0, 2).Draw(rt, "all_generators") == 0 {
			k.AllGens = true
			c.Class("all-six-generators-over-one-model")
		}
		c.EvalN(len(ok) * (len(k.Msgs) + len(k.Probes)))
		for _, l := range ok {
			c.Class("lang:" + l)
		}
		for _, f := range k.Prog.Features() {
			if strings.HasPrefix(f, "match") {
				c.Class("feat:" + f)
			}
		}
		rich := false
		for _, s := range matchSites(k.Prog) {
			if len(s.F.Pairs) >= 2 || s.F.Pairs[0].List {
				rich = true
			}
		}
		if rich && len(k.Msgs) > 0 && len(k.Probes) > 0 {
			c.NonTrivial(pbt.Hash(k), func() any {
				return map[string]any{"dsl": clip(dsl.PlainText(k.Prog), 600), "langs": ok, "in_table_messages": len(k.Msgs), "out_of_table_keys": probeKeys(k.Probes)}
			})
		}
		c.Report(rt, k, evalC05(k))
	})
}

func probeKeys(ps []c05Probe) []string {
	var o []string
	for _, p := range ps {
		o = append(o, p.Key)
	}
	return o
}

// payloadTypes lists the dynamic payload type names appearing in a dump, in order.
func payloadTypes(p *dsl.Program, dump string) string {
	var o []string
	for _, t := range strings.Fields(dump) {
		if p.PacketByName(t) != nil {
			o = append(o, t)
		}
	}
	return strings.Join(o, ",")
}

// ownPayloadTypes: the dynamic type of each match field declared directly in the packet.
func ownPayloadTypes(p *dsl.Program, packet, dump string) string {
	pk := p.PacketByName(packet)
	var o []string
	for _, f := range pk.Fields {
		if f.Kind == dsl.KMatch {
			t, ok := dumpTokenFor(p, pk, dump, pk.Name+"."+f.Name)
			if !ok {
				t = "?"
			}
			o = append(o, f.Name+"="+t)
		}
	}
	return strings.Join(o, ",")
}
