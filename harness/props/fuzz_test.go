package props

import (
	"os"
	"path/filepath"
	"strings"
	"testing"

	"github.com/xinchentechnote/fin-protoc/verifharness/dsl"
	"github.com/xinchentechnote/fin-protoc/verifharness/inproc"
	"github.com/xinchentechnote/fin-protoc/verifharness/pbt"
)

// seedCorpus: hostile constants, the repository's own sample, and known-finding repros.
func seedCorpus(f *testing.F) {
	for _, h := range hostile {
		f.Add(h)
	}
	if repo := os.Getenv("VERIF_REPO_DIR"); repo != "" {
		for _, n := range []string{"internal/parser/testdata/sample_binary.dsl", "chat/proto/chat.dsl"} {
			if b, err := os.ReadFile(filepath.Join(repo, n)); err == nil {
				f.Add(string(b))
			}
		}
	}
	f.Add(dsl.PlainText(&dsl.Program{Packets: []*dsl.Packet{{Name: "Alpha", Root: true, Fields: []*dsl.Field{{Kind: dsl.KScalar, Type: "u8", Name: "Ax"}}}}}))
}

func openPanic(sig string) bool {
	for _, fd := range pbt.Findings() {
		if fd.Property == "C11" && fd.Status == "open" && (fd.Signature == sig || strings.HasSuffix(fd.Signature, sig)) {
			return true
		}
	}
	return false
}

// FuzzFormat: coverage-guided search for inputs that crash the formatter (C11).
func FuzzFormat(f *testing.F) {
	seedCorpus(f)
	f.Fuzz(func(t *testing.T, text string) {
		if _, _, pmsg, psig := inproc.Format(text); pmsg != "" && !openPanic("panic:"+psig) {
			t.Fatalf("C11 panic:%s %s", psig, pmsg)
		}
	})
}

// FuzzCompile: coverage-guided search for inputs that crash parse -> diagnostics -> generators.
func FuzzCompile(f *testing.F) {
	seedCorpus(f)
	f.Fuzz(func(t *testing.T, text string) {
		if res := inproc.Compile(text, inproc.Langs); res.Panic != "" && !openPanic("panic:"+res.PanicSig) {
			t.Fatalf("C11 panic:%s %s", res.PanicSig, res.Panic)
		}
	})
}
