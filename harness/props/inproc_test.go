package props

import (
	"encoding/json"
	"fmt"
	"os"
	"path/filepath"
	"sort"
	"strings"
	"testing"
	"time"

	"github.com/xinchentechnote/fin-protoc/verifharness/cli"
	"github.com/xinchentechnote/fin-protoc/verifharness/dsl"
	"github.com/xinchentechnote/fin-protoc/verifharness/inproc"
	"github.com/xinchentechnote/fin-protoc/verifharness/pbt"
	"pgregory.net/rapid"
)

// replayHistory evaluates the cases a replay file lists as "history" (a failure that depends
// on earlier calls in the process) before the case itself is evaluated.
func replayHistory[T any](p string, eval func(T) []pbt.Violation) {
	for _, raw := range pbt.LoadReplayHistory(p) {
		var k T
		if json.Unmarshal(raw, &k) == nil {
			eval(k)
		}
	}
}

func loadCase[T any](t *testing.T, p string) T {
	var k T
	raw, err := pbt.LoadReplay(p)
	if err != nil {
		t.Fatal(err)
	}
	if err := json.Unmarshal(raw, &k); err != nil {
		t.Fatal(err)
	}
	return k
}

// compileCLI runs the built CLI over text requesting langs; returns per-language trees.
func compileCLI(text string, langs []string, withWord bool) (map[string]map[string][]byte, cli.Result, string) {
	dir := cli.Scratch("cli")
	in := filepath.Join(dir, "in.dsl")
	_ = os.WriteFile(in, []byte(text), 0o644)
	var args []string
	if withWord {
		args = append(args, "compile")
	}
	args = append(args, "-f", in)
	for _, l := range langs {
		args = append(args, cli.Flags[l], filepath.Join(dir, "out_"+l))
	}
	r := cli.Run(dir, 60*time.Second, nil, nil, cli.Bin(), cli.Respell(args, text)...)
	trees := map[string]map[string][]byte{}
	for _, l := range langs {
		trees[l] = cli.ReadTree(filepath.Join(dir, "out_"+l))
	}
	return trees, r, dir
}

// ---------- C13: determinism ----------

type c13Case struct {
	Text string `json:"text"`
	CLI  bool   `json:"cli"`
}

func evalC13(k c13Case) []pbt.Violation {
	var first *inproc.Result
	var firstVerdict string
	runs := 8
	for i := 0; i < runs; i++ {
		r := inproc.Compile(k.Text, inproc.Langs)
		if r.Panic != "" {
			return nil // C11's business
		}
		// whether the program is accepted, and with which diagnostics, must not vary either
		verdict := r.ParseErr + "|" + fmt.Sprint(r.Diags)
		if first == nil {
			first, firstVerdict = r, verdict
			continue
		}
		if verdict != firstVerdict {
			return []pbt.Violation{{Signature: "nondeterministic:acceptance", Detail: fmt.Sprintf("run 1 of the same DSL ends with diagnostics %q, run %d with %q", clip(firstVerdict, 200), i+1, clip(verdict, 200))}}
		}
		if r.ParseErr != "" || len(r.Diags) > 0 {
			continue // rejected the same way every time: which programs are accepted is C12's business
		}
		for _, l := range inproc.Langs {
			if first.GenErr[l] != r.GenErr[l] {
				return []pbt.Violation{{Signature: "nondeterministic:outcome:" + l, Detail: fmt.Sprintf("run 1 of %s ends with %q, run %d with %q", l, first.GenErr[l], i+1, r.GenErr[l])}}
			}
			if d := inproc.FilesEqual(first.Files[l], r.Files[l]); d != "" {
				return []pbt.Violation{{Signature: "nondeterministic:" + l + ":" + fileClass(d), Detail: fmt.Sprintf("run 1 and run %d of the same DSL differ for %s: %s", i+1, l, d)}}
			}
		}
	}
	if first.ParseErr != "" || len(first.Diags) > 0 {
		return nil
	}
	if len(first.GenErr) > 0 {
		// a program some targets refuse (no root packet): the command line stops at the first
		// refusal; what the earlier targets left behind must not vary from process to process
		if k.CLI && cli.Bin() != "" {
			var ref map[string]map[string][]byte
			for i := 0; i < 3; i++ {
				trees, _, dir := compileCLI(k.Text, []string{"rust", "go", "java", "python"}, true)
				os.RemoveAll(dir)
				if ref == nil {
					ref = trees
					continue
				}
				for _, l := range []string{"rust", "go", "java", "python"} {
					if d := inproc.FilesEqual(ref[l], trees[l]); d != "" {
						return []pbt.Violation{{Signature: "nondeterministic:refused:" + l, Detail: fmt.Sprintf("two CLI processes that both stop at the refusing target leave different trees for %s: %s", l, d)}}
					}
				}
			}
		}
		return nil
	}
	if k.CLI && cli.Bin() != "" {
		var ref map[string]map[string][]byte
		for i := 0; i < 3; i++ {
			var trees map[string]map[string][]byte
			var r cli.Result
			var dir string
			if i == 2 {
				// third process: the output directories hold longer files of an earlier run
				files, note := filesViaCLI(k.Text, inproc.Langs, first.Files)
				if files == nil {
					return []pbt.Violation{{External: true, Signature: "cli-fails-where-library-succeeds", Detail: note}}
				}
				trees = files
			} else {
				trees, r, dir = compileCLI(k.Text, inproc.Langs, i%2 == 0)
				os.RemoveAll(dir)
			}
			if r.Exit != 0 {
				return []pbt.Violation{{External: true, Signature: "cli-fails-where-library-succeeds", Detail: fmt.Sprintf("exit %d: %s", r.Exit, clip(string(r.Stdout)+string(r.Stderr), 300))}}
			}
			if ref == nil {
				ref = trees
				for _, l := range inproc.Langs {
					if d := inproc.FilesEqual(first.Files[l], trees[l]); d != "" {
						return []pbt.Violation{{Signature: "process-dependent:" + l, Detail: "CLI output differs from in-process output: " + d}}
					}
				}
				continue
			}
			for _, l := range inproc.Langs {
				if d := inproc.FilesEqual(ref[l], trees[l]); d != "" {
					return []pbt.Violation{{Signature: "nondeterministic:" + l + ":" + fileClass(d), Detail: fmt.Sprintf("two CLI processes differ for %s: %s", l, d)}}
				}
			}
		}
		// the same flags may also name ONE directory for every target: three more processes
		var shared map[string][]byte
		for i := 0; i < 3; i++ {
			tree, r := compileShared(k.Text, inproc.Langs)
			if r.Exit != 0 {
				return []pbt.Violation{{External: true, Signature: "cli-fails-where-library-succeeds", Detail: fmt.Sprintf("shared directory, exit %d: %s", r.Exit, clip(string(r.Stdout)+string(r.Stderr), 300))}}
			}
			if shared == nil {
				shared = tree
			} else if d := inproc.FilesEqual(shared, tree); d != "" {
				return []pbt.Violation{{Signature: "nondeterministic:shared-directory", Detail: "two CLI processes writing all targets into one directory differ: " + d}}
			}
		}
	}
	return nil
}

// compileShared runs the built CLI with every output flag naming the same directory.
func compileShared(text string, langs []string) (map[string][]byte, cli.Result) {
	dir := cli.Scratch("shared")
	defer os.RemoveAll(dir)
	in := filepath.Join(dir, "in.dsl")
	_ = os.WriteFile(in, []byte(text), 0o644)
	args := []string{"compile", "-f", in}
	for _, l := range langs {
		args = append(args, cli.Flags[l], filepath.Join(dir, "all"))
	}
	r := cli.Run(dir, 60*time.Second, nil, nil, cli.Bin(), cli.Respell(args, text)...)
	return cli.ReadTree(filepath.Join(dir, "all")), r
}

// fileClass keeps only the kind of file from a FilesEqual message.
func fileClass(d string) string {
	f := strings.Fields(d)
	if len(f) >= 2 {
		name := f[1]
		switch {
		case strings.HasSuffix(name, "lib.rs"):
			return "lib.rs"
		case strings.Contains(name, "."):
			return "*" + name[strings.LastIndex(name, "."):]
		}
	}
	return "file"
}

func mapRich(p *dsl.Program) bool {
	if len(p.Packets) < 3 {
		return false
	}
	for _, k := range p.Packets {
		nm, refs := 0, map[string]bool{}
		for _, f := range k.Fields {
			switch f.Kind {
			case dsl.KMatch:
				nm++
				for _, pr := range f.Pairs {
					refs[pr.Target] = true
				}
			case dsl.KObj:
				refs[f.Ref] = true
			}
		}
		if nm >= 2 || len(refs) >= 2 {
			return true
		}
	}
	return false
}

// genMapRich biases the generator towards the shapes C13 names.
func genMapRich(rt *rapid.T, avoid map[string]bool) *dsl.Program {
	p := dsl.GenProgram(rt, dsl.GenCfg{MinPackets: 3, MaxPackets: 7, MaxFields: 7, WantMatch: true, Avoid: avoid, Shapes: true, AnyOrder: true, KeywordNames: true})
	// add a second match field to some packet when possible
	if rapid.Bool().Draw(rt, "second_match") {
		dsl.AddSecondMatch(rt, p)
	}
	// the same inline object declared in two packets: the generators keep per-name state
	if !avoid["inline:shared-name"] && rapid.IntRange(0, 3).Draw(rt, "share_inline") == 0 {
		dsl.ShareInline(rt, p)
	}
	// no root packet: Go, Java and Rust need none, the other three refuse the model
	if !dsl.Has(p.Features(), "len") && rapid.IntRange(0, 5).Draw(rt, "no_root") == 0 {
		p.RootPacket().Root = false
	}
	return p
}

func TestC13(t *testing.T) {
	c := pbt.New("C13", "exploration",
		"well-formed programs biased to >=3 packets, several match fields per packet and several referenced packets per packet; each is compiled 8 times in one process (Go re-randomises map iteration on every range) and, for a sample, by 3 CLI processes with one directory per target and 3 more with one directory for all targets; all file maps must be byte-identical. Non-trivial = >=3 packets and a packet with >=2 match fields or >=2 distinct referenced packets; distinct = hash of DSL text.",
		"map orders can only be sampled, not enumerated: a 2-entry map escapes 8 runs with probability 2^-7 per program", "the C++ generator stamps the current year; runs inside one check share it")
	if p := pbt.ReplayPath(); p != "" {
		c.Direct(t, func() { replayHistory(p, evalC13); k := loadCase[c13Case](t, p); c.Eval(); c.Report(pbt.DirectTB(t), k, evalC13(k)) })
		return
	}
	avoid := pbt.AvoidTags("C13", "C11")
	c.SetRecheck(func(k any) []pbt.Violation { return evalC13(k.(c13Case)) })
	c.SetPure()
	c.ReplayKnown(t, func(raw json.RawMessage) []pbt.Violation {
		var k c13Case
		_ = json.Unmarshal(raw, &k)
		return evalC13(k)
	})
	n := 0
	c.Check(t, func(rt *rapid.T) {
		p := genMapRich(rt, avoid)
		n++
		// random layout: several declarations may share a line (line numbers feed some orderings)
		lay := dsl.RandLayout{T: rt, Label: "lay"}
		switch rapid.IntRange(0, 2).Draw(rt, "layout") {
		case 1:
			lay.Wild = true
		case 2:
			lay.Dense = true
		}
		text, _ := dsl.Render(p, dsl.Plain{}, lay, dsl.RenderOpts{NoPadRewrites: true})
		k := c13Case{Text: text, CLI: rapid.IntRange(0, 24).Draw(rt, "with_cli") == 0}
		c.Eval()
		if mapRich(p) {
			c.NonTrivial(pbt.Hash(k.Text), func() any { return map[string]any{"dsl": clip(k.Text, 700)} })
			c.Class("map-rich")
		}
		if k.CLI {
			c.Class("with-cli-processes")
		}
		c.Report(rt, k, evalC13(k))
	})
}

// ---------- C14: targets are independent ----------

type c14Case struct {
	// SharedDir: all requested targets write into ONE output directory
	SharedDir bool     `json:"shared_dir,omitempty"`
	Text    string   `json:"text"`
	History []string `json:"history"`          // generator runs over ONE parsed model
	Subset  []string `json:"subset,omitempty"` // CLI: requested targets
}

// soloOutputs generates every target alone, each over a fresh parse. A generator may refuse a
// model (Lua, Python and C++ need a root packet): that outcome is recorded per language.
func soloOutputs(text string) (map[string]map[string][]byte, map[string]string, bool) {
	out := map[string]map[string][]byte{}
	errs := map[string]string{}
	for _, l := range inproc.Langs {
		r := inproc.Compile(text, []string{l})
		if r.ParseErr != "" || r.Panic != "" || len(r.Diags) > 0 || r.Model == nil {
			return nil, nil, false
		}
		if e := r.GenErr[l]; e != "" {
			errs[l] = e
			continue
		}
		out[l] = r.Files[l]
	}
	return out, errs, true
}

func evalC14(k c14Case) []pbt.Violation {
	solo, soloErr, ok := soloOutputs(k.Text)
	if !ok {
		return nil
	}
	res := inproc.Parse(k.Text)
	if res.Model == nil || res.Panic != "" {
		return nil
	}
	snap0 := inproc.Snapshot(res.Model)
	for i, l := range k.History {
		delete(res.GenErr, l)
		delete(res.Files, l)
		inproc.Gen(res, l)
		if res.Panic != "" {
			return []pbt.Violation{{Signature: "history-panics:" + l, Detail: fmt.Sprintf("generator %s panics after history %v although it works alone: %s", l, k.History[:i], res.Panic)}}
		}
		prev := "(none)"
		if i > 0 {
			prev = strings.Join(uniq(k.History[:i]), ",")
		}
		if (soloErr[l] != "") != (res.GenErr[l] != "") {
			return []pbt.Violation{{Signature: "outcome-depends-on-history:" + l, Detail: fmt.Sprintf("alone, %s ends with %q; after running %s it ends with %q and %d files", l, soloErr[l], prev, res.GenErr[l], len(res.Files[l]))}}
		}
		if soloErr[l] != "" {
			continue
		}
		if d := inproc.FilesEqual(solo[l], res.Files[l]); d != "" {
			return []pbt.Violation{{Signature: "output-depends-on-history:" + l, Detail: fmt.Sprintf("output of %s after running %s differs from its output alone: %s", l, prev, d)}}
		}
		if s := inproc.Snapshot(res.Model); s != snap0 {
			return []pbt.Violation{{Signature: "model-mutated-by:" + l, Detail: fmt.Sprintf("generator %s altered the parsed model: %s", l, snapDiff(snap0, s))}}
		}
	}
	for _, l := range k.Subset {
		if soloErr[l] != "" {
			return nil // the CLI stops at the first target that refuses the model
		}
	}
	if len(k.Subset) > 0 && cli.Bin() != "" && k.SharedDir {
		dir := cli.Scratch("shared")
		defer os.RemoveAll(dir)
		in := filepath.Join(dir, "in.dsl")
		_ = os.WriteFile(in, []byte(k.Text), 0o644)
		args := []string{"compile", "-f", in}
		want := map[string][]byte{}
		for _, l := range k.Subset {
			args = append(args, cli.Flags[l], filepath.Join(dir, "all"))
			for n, b := range solo[l] {
				want[n] = b
			}
		}
		r := cli.Run(dir, 60*time.Second, nil, nil, cli.Bin(), cli.Respell(args, k.Text)...)
		if r.Exit != 0 {
			return []pbt.Violation{{External: true, Signature: "cli-fails-where-library-succeeds", Detail: fmt.Sprintf("shared directory, subset %v exit %d: %s", k.Subset, r.Exit, clip(string(r.Stdout), 300))}}
		}
		if d := inproc.FilesEqual(want, cli.ReadTree(filepath.Join(dir, "all"))); d != "" {
			return []pbt.Violation{{Signature: "shared-directory-interference", Detail: fmt.Sprintf("targets %v written into one directory: the tree is not the union of what each target writes alone: %s", k.Subset, d)}}
		}
	} else if len(k.Subset) > 0 && cli.Bin() != "" {
		trees, r, dir := compileCLI(k.Text, k.Subset, true)
		defer os.RemoveAll(dir)
		if r.Exit != 0 {
			return []pbt.Violation{{External: true, Signature: "cli-fails-where-library-succeeds", Detail: fmt.Sprintf("subset %v exit %d: %s", k.Subset, r.Exit, clip(string(r.Stdout), 300))}}
		}
		for _, l := range k.Subset {
			if d := inproc.FilesEqual(solo[l], trees[l]); d != "" {
				return []pbt.Violation{{Signature: "output-depends-on-subset:" + l, Detail: fmt.Sprintf("tree of %s when requested with %v differs from its tree alone: %s", l, k.Subset, d)}}
			}
		}
		// descriptors: every target alone fits a limit on open files that the targets together
		// exceed only if a target's files stay open while the next target is written
		if len(k.Subset) >= 3 {
			most, sum, big := 0, 0, ""
			for _, l := range k.Subset {
				sum += len(solo[l])
				if len(solo[l]) > most {
					most, big = len(solo[l]), l
				}
			}
			limit := most + 10
			if sum+4 > limit {
				lim := func(langs []string) cli.Result {
					d := cli.Scratch("fdlimit")
					defer os.RemoveAll(d)
					in := filepath.Join(d, "in.dsl")
					_ = os.WriteFile(in, []byte(k.Text), 0o644)
					args := []string{cli.Bin(), "compile", "-f", in}
					for _, l := range langs {
						args = append(args, cli.Flags[l], filepath.Join(d, "out_"+l))
					}
					return cli.Run(d, 60*time.Second, nil, nil, "sh", append([]string{"-c", fmt.Sprintf(`ulimit -n %d && exec "$0" "$@"`, limit)}, args...)...)
				}
				if alone := lim([]string{big}); alone.Exit == 0 {
					if all := lim(k.Subset); all.Exit != 0 {
						return []pbt.Violation{{External: true, Signature: "targets-compete-for-descriptors", Detail: fmt.Sprintf("with at most %d open files, %s alone (%d files) is written, but %v together fail: %s", limit, big, most, k.Subset, clip(string(all.Stdout)+string(all.Stderr), 300))}}
					}
				}
			}
		}
		// nothing but the requested directories
		ents, _ := os.ReadDir(dir)
		for _, e := range ents {
			name := e.Name()
			if name == "in.dsl" {
				continue
			}
			ok := false
			for _, l := range k.Subset {
				if name == "out_"+l {
					ok = true
				}
			}
			if !ok {
				return []pbt.Violation{{Signature: "unrequested-output", Detail: "unexpected entry " + name + " next to the requested output directories"}}
			}
		}
	}
	return nil
}

func uniq(s []string) []string {
	m := map[string]bool{}
	var o []string
	for _, x := range s {
		if !m[x] {
			m[x] = true
			o = append(o, x)
		}
	}
	sort.Strings(o)
	return o
}

func snapDiff(a, b string) string {
	i := 0
	for i < len(a) && i < len(b) && a[i] == b[i] {
		i++
	}
	lo := max(0, i-60)
	return fmt.Sprintf("...%q became ...%q", clip(a[lo:], 140), clip(b[lo:], 140))
}

func TestC14(t *testing.T) {
	c := pbt.New("C14", "exploration",
		"well-formed programs (biased to fixed strings: zchar, NUL/declared padding, pad options, MetaData-shared types; reserved words of the target languages as field names; a sixth without root packet, where three generators refuse the model; a quarter with two match fields on one key) x a random history of up to 12 generator runs over ONE parsed model (state machine; invariant after every step: output == output of that generator alone on a fresh parse, deep model snapshot unchanged) and, for a sample, a random subset of the 6 output flags through the CLI (tree of L under the subset == tree of L alone). Non-trivial = history with >=2 different generators and a program containing a fixed-string field; distinct = hash of (text, history, subset).",
		"the reference output of a generator is its output on a fresh parse with no other generator run")
	if p := pbt.ReplayPath(); p != "" {
		c.Direct(t, func() { replayHistory(p, evalC14); k := loadCase[c14Case](t, p); c.Eval(); c.Report(pbt.DirectTB(t), k, evalC14(k)) })
		return
	}
	avoid := pbt.AvoidTags("C14", "C11", "C13")
	c.SetRecheck(func(k any) []pbt.Violation { return evalC14(k.(c14Case)) })
	c.SetPure()
	c.ReplayKnown(t, func(raw json.RawMessage) []pbt.Violation {
		var k c14Case
		_ = json.Unmarshal(raw, &k)
		return evalC14(k)
	})
	n := 0
	c.Check(t, func(rt *rapid.T) {
		p := dsl.GenProgram(rt, dsl.GenCfg{MaxPackets: 4, Avoid: avoid, Shapes: true, AnyOrder: true, KeywordNames: true})
		// without a root packet three generators refuse the model, alone and after any other
		if !dsl.Has(p.Features(), "len") && rapid.IntRange(0, 5).Draw(rt, "no_root") == 0 {
			p.RootPacket().Root = false
			c.Class("program-without-root-packet")
		}
		// a length-of field on a plain member
		if p.RootPacket() != nil && p.RootPacket().Root && rapid.IntRange(0, 4).Draw(rt, "plain_length") == 0 && dsl.AddPlainLength(p) {
			c.Class("length-of-a-plain-member")
		}
		// two match fields selected by ONE key field
		if rapid.IntRange(0, 3).Draw(rt, "second_match_same_key") == 0 && dsl.AddSecondMatchSameKey(rt, p) {
			c.Class("two-match-fields-on-one-key")
		}
		// an inline object named like a top-level packet declared elsewhere
		if rapid.IntRange(0, 3).Draw(rt, "inline_shadows_packet") == 0 && dsl.InlineShadowsPacket(rt, p) {
			c.Class("inline-object-named-like-a-packet")
		}
		hist := rapid.SliceOfN(rapid.SampledFrom(inproc.Langs), 2, 12).Draw(rt, "history")
		k := c14Case{Text: dsl.PlainText(p), History: hist}
		n++
		if rapid.IntRange(0, 5).Draw(rt, "with_cli") == 0 || pbt.Thorough() {
			k.Subset = drawSubset(rt)
			if rapid.IntRange(0, 3).Draw(rt, "shared_dir") == 0 {
				k.SharedDir = true
				c.Class("cli-shared-output-directory")
			}
			c.Class(fmt.Sprintf("cli-subset-size-%d", len(k.Subset)))
			c.Class("cli-subset:" + strings.Join(k.Subset, "+"))
		}
		c.Eval()
		feats := p.Features()
		hasFixed := dsl.Has(feats, "fixed") || dsl.Has(feats, "repeat:fixed") || dsl.Has(feats, "zchar")
		if hasFixed {
			c.Class("has-fixed-string")
		}
		if len(uniq(hist)) >= 2 && hasFixed {
			c.NonTrivial(pbt.Hash(k.Text, hist, k.Subset), func() any { return map[string]any{"dsl": clip(k.Text, 500), "history": hist, "subset": k.Subset} })
		}
		c.Report(rt, k, evalC14(k))
	})
}

func drawSubset(rt *rapid.T) []string {
	var s []string
	for _, l := range inproc.Langs {
		if rapid.Bool().Draw(rt, "want_"+l) {
			s = append(s, l)
		}
	}
	if len(s) == 0 {
		s = []string{rapid.SampledFrom(inproc.Langs).Draw(rt, "one")}
	}
	return s
}

// ---------- C08: meaning, not spelling ----------

type c08Case struct {
	A string `json:"a"`
	B string `json:"b"`
	// Rewrites lists the rewrite kinds in which the two spellings differ (informational).
	Rewrites []string `json:"rewrites,omitempty"`
}

func evalC08(k c08Case) []pbt.Violation {
	ra := inproc.Compile(k.A, inproc.Langs)
	rb := inproc.Compile(k.B, inproc.Langs)
	if ra.Panic != "" || rb.Panic != "" {
		return nil // C11
	}
	cls := strings.Join(k.Rewrites, "+")
	if len(k.Rewrites) > 2 {
		cls = "several"
	}
	if ra.OK() != rb.OK() {
		return []pbt.Violation{{Signature: "spelling-changes-acceptance:" + cls, Detail: fmt.Sprintf("one spelling is accepted, the other is not: %q / %q vs %q / %q", clip(ra.ParseErr, 100), clip(diagMsgs(ra), 150), clip(rb.ParseErr, 100), clip(diagMsgs(rb), 150))}}
	}
	if !ra.OK() {
		return nil
	}
	for _, l := range inproc.Langs {
		if d := inproc.FilesEqual(ra.Files[l], rb.Files[l]); d != "" {
			return []pbt.Violation{{Signature: "spelling-changes-output:" + cls, Detail: fmt.Sprintf("%s output differs between two spellings (%s): %s", l, strings.Join(k.Rewrites, ","), d)}}
		}
	}
	return nil
}

func usedKinds(m map[string]int) []string {
	var o []string
	for k, v := range m {
		if v > 0 {
			o = append(o, k)
		}
	}
	sort.Strings(o)
	return o
}

func TestC08(t *testing.T) {
	c := pbt.New("C08", "exploration",
		"a well-formed program is rendered twice with independent draws of the meaning-preserving rewrites C08 lists (type alias, string/char[], zchar vs @rightPad('\\x00'), explicit default padding vs none, () vs (' ') pad argument, inline vs prefixed attribute, explicit default options vs none, key list vs expanded pairs, single key vs one-element list, MetaData-typed field vs inlined type, optional ; and , separators, whitespace, comments, doc strings kept identical), each at a random subset of sites; the six generators' file maps of the two texts must be byte-identical. Non-trivial = the two texts differ in at least one non-whitespace rewrite and the program has a packet with fields; distinct = hash of the two texts. To isolate root causes, one case in two restricts the second rendering to a single rewrite kind.",
		"doc strings are kept identical in both renderings (dropping one is not among the listed rewrites)", "needs C13 (determinism) to hold")
	if p := pbt.ReplayPath(); p != "" {
		c.Direct(t, func() { replayHistory(p, evalC08); k := loadCase[c08Case](t, p); c.Eval(); c.Report(pbt.DirectTB(t), k, evalC08(k)) })
		return
	}
	avoid := pbt.AvoidTags("C08", "C11", "C13")
	c.SetRecheck(func(k any) []pbt.Violation { return evalC08(k.(c08Case)) })
	c.SetPure()
	c.ReplayKnown(t, func(raw json.RawMessage) []pbt.Violation {
		var k c08Case
		_ = json.Unmarshal(raw, &k)
		return evalC08(k)
	})
	kinds := []string{"alias", "dyn", "zchar", "lenzero", "keyzero", "defpad", "padarg", "attrplace", "defopt", "expand", "aslist", "via", "semi", "paircomma", "optquote", "optsplit"}
	c.Check(t, func(rt *rapid.T) {
		p := dsl.GenProgram(rt, dsl.GenCfg{MaxPackets: 4, Docs: true, Avoid: avoid, Shapes: true, AnyOrder: true, KeywordNames: true, MetaShare: rapid.IntRange(0, 3).Draw(rt, "metashare") == 0})
		// the package options have the empty string as their default: a program that leaves them
		// out may also spell them `JavaPackage = ""`
		if rapid.IntRange(0, 3).Draw(rt, "no_package_options") == 0 {
			for i, o := range []*string{&p.Opts.JavaPackage, &p.Opts.GoPackage, &p.Opts.GoModule} {
				if rapid.IntRange(0, 2).Draw(rt, fmt.Sprintf("drop_pkg_opt%d", i)) > 0 {
					*o = ""
				}
			}
			c.Class("program-without-package-options")
		}
		ua, ub := map[string]int{}, map[string]int{}
		var only string
		if rapid.Bool().Draw(rt, "single_kind") {
			only = rapid.SampledFrom(kinds).Draw(rt, "only_kind")
		}
		spA := &RapidSpeller{T: rt, Tag: "A", Used: ua}
		var spB dsl.Speller = &RapidSpeller{T: rt, Tag: "B", Used: ub}
		var a string
		if only != "" {
			a = renderWith(p, dsl.Plain{}, rt, "la", avoid)
			spB = &onlyKind{inner: spB.(*RapidSpeller), kind: only, avoid: avoid}
		} else {
			a = renderWith(p, &filtered{inner: spA, avoid: avoid}, rt, "la", avoid)
			spB = &filtered{inner: spB.(*RapidSpeller), avoid: avoid}
		}
		b := renderWith(p, spB, rt, "lb", avoid)
		longLine := false
		if rapid.IntRange(0, 11).Draw(rt, "long_comment_line") == 0 {
			// a comment line longer than the usual line buffers (64 KiB) in front of the text
			b = "// " + strings.Repeat("-", rapid.SampledFrom([]int{65536, 70000, 200000}).Draw(rt, "long_line_len")) + "\n" + b
			longLine = true
			c.Class("comment-line-longer-than-64KiB")
		}
		rew := usedKinds(ub)
		if longLine {
			rew = append(rew, "longline")
		}
		for _, x := range usedKinds(ua) {
			if !contains(rew, x) {
				rew = append(rew, x)
			}
		}
		sort.Strings(rew)
		k := c08Case{A: a, B: b, Rewrites: rew}
		c.Eval()
		for _, r := range rew {
			c.Class("rewrite:" + r)
		}
		hasFields := false
		for _, pk := range p.Packets {
			if len(pk.Fields) > 0 {
				hasFields = true
			}
		}
		if len(rew) > 0 && hasFields && a != b {
			c.NonTrivial(pbt.Hash(a, b), func() any { return map[string]any{"a": clip(a, 500), "b": clip(b, 500), "rewrites": rew} })
		}
		c.Report(rt, k, evalC08(k))
	})
}

func contains(s []string, x string) bool {
	for _, y := range s {
		if y == x {
			return true
		}
	}
	return false
}

// filtered suppresses rewrite kinds excluded by open findings.
type filtered struct {
	inner *RapidSpeller
	avoid map[string]bool
}

func (f *filtered) Choose(site string, n int) int {
	kind := site
	if i := strings.IndexByte(site, ':'); i > 0 {
		kind = site[:i]
	}
	if f.avoid["rewrite:"+kind] {
		return 0
	}
	return f.inner.Choose(site, n)
}

// onlyKind lets exactly one rewrite kind vary.
type onlyKind struct {
	inner *RapidSpeller
	kind  string
	avoid map[string]bool
}

func (o *onlyKind) Choose(site string, n int) int {
	if !strings.HasPrefix(site, o.kind+":") || o.avoid["rewrite:"+o.kind] {
		return 0
	}
	return o.inner.Choose(site, n)
}

func renderWith(p *dsl.Program, sp dsl.Speller, rt *rapid.T, label string, avoid map[string]bool) string {
	toks := dsl.Tokens(p, sp, dsl.RenderOpts{})
	allowed := func(cls string) bool { return true }
	dsl.Decorate(rt, toks, dsl.AnywhereComments, label+"cm", allowed)
	s, _ := dsl.Layout(toks, dsl.RandLayout{T: rt, Label: label})
	return s
}
