package props

import (
	"encoding/hex"
	"fmt"
	"os"
	"path/filepath"
	"regexp"
	"strings"
	"testing"
	"time"

	"github.com/iancoleman/strcase"
	"github.com/xinchentechnote/fin-protoc/verifharness/cli"
	"github.com/xinchentechnote/fin-protoc/verifharness/dsl"
	"github.com/xinchentechnote/fin-protoc/verifharness/pbt"
	"github.com/xinchentechnote/fin-protoc/verifharness/ref"
	"github.com/xinchentechnote/fin-protoc/verifharness/xlang"
	"pgregory.net/rapid"
)

// tokenDiffClass names the kind of the first field whose token differs between two dumps.
func dumpDiff(p *dsl.Program, pk *dsl.Packet, got, want string) (string, string) {
	g, w := strings.Fields(got), strings.Fields(want)
	i := 0
	for i < len(g) && i < len(w) && g[i] == w[i] {
		i++
	}
	if i == len(g) && i == len(w) {
		return "", ""
	}
	// walk the packet structure along the expected tokens to find which field token i belongs to
	cls := "?"
	pos := 0
	var walk func(k *dsl.Packet) bool
	walk = func(k *dsl.Packet) bool {
		for _, f := range k.Fields {
			n := 1
			if f.Repeat {
				if pos == i {
					cls = "listcount(" + f.Kind.String() + ")"
					return true
				}
				if pos >= len(w) {
					return true
				}
				fmt.Sscan(w[pos], &n)
				pos++
			}
			for j := 0; j < n; j++ {
				switch f.Kind {
				case dsl.KScalar, dsl.KLen, dsl.KSum, dsl.KFixed, dsl.KDyn:
					if pos == i {
						cls = f.Kind.String()
						if f.Kind == dsl.KScalar || f.Kind == dsl.KLen || f.Kind == dsl.KSum {
							cls += ":" + f.Type
						}
						if f.Repeat {
							cls = "repeat:" + cls
						}
						return true
					}
					pos++
				case dsl.KObj:
					if walk(p.PacketByName(f.Ref)) {
						return true
					}
				case dsl.KInline:
					if walk(f.Inline) {
						return true
					}
				case dsl.KMatch:
					if pos == i {
						cls = "match-type"
						return true
					}
					if pos >= len(w) {
						return true
					}
					t := p.PacketByName(w[pos])
					pos++
					if t == nil || walk(t) {
						return true
					}
				}
			}
		}
		return false
	}
	walk(pk)
	ctx := func(t []string) string {
		lo, hi := max(0, i-2), min(len(t), i+3)
		return strings.Join(t[lo:hi], " ")
	}
	return cls, fmt.Sprintf("token %d: got [%s] want [%s]", i, ctx(g), ctx(w))
}

// evalC02: decoders invert the canonical encoding, consume exactly one message, re-encode equal.
func evalC02(k xCase) []pbt.Violation {
	x := runCase(k, false)
	vs := commonViolations(k, x)
	for _, l := range k.Langs {
		lr := x.Langs[l]
		if lr == nil || lr.BuildErr != nil || lr.Crash != "" {
			continue
		}
	msgs:
		for mode := 0; mode < modesOf(x); mode++ {
			for i, m := range k.Msgs {
				r := lr.Dec[mode][i]
				want := x.Ref[i].Bytes[mode]
				pk := k.Prog.PacketByName(m.Packet)
				switch {
				case !r.OK:
					vs = append(vs, pbt.Violation{Signature: "dec-error:" + l + ":" + errClass(r.Err), Detail: fmt.Sprintf("%s decoder rejects the canonical encoding of %s: %s", l, m.Packet, clip(r.Err, 200))})
					break msgs
				case r.Dump != x.Ref[i].Canon[mode]:
					cls, d := dumpDiff(k.Prog, pk, r.Dump, x.Ref[i].Canon[mode])
					vs = append(vs, pbt.Violation{Signature: "dec-value:" + l + ":" + cls, Detail: fmt.Sprintf("%s decodes %s to different values: %s", l, m.Packet, d)})
					break msgs
				case r.Consumed != len(want):
					vs = append(vs, pbt.Violation{Signature: "dec-consumed:" + l, Detail: fmt.Sprintf("%s decoder consumed %d bytes of a %d-byte message (suffix %q)", l, r.Consumed, len(want), m.Suffix)})
					break msgs
				case r.Hex != hex.EncodeToString(want):
					got, _ := hex.DecodeString(r.Hex)
					leaf := leafAt(x.Ref[i].Layout[mode], max(0, firstDiffByte(got, want)))
					vs = append(vs, pbt.Violation{Signature: "reencode:" + l + ":" + leafClass(leaf), Detail: fmt.Sprintf("%s re-encodes the decoded %s differently: got %s want %s", l, m.Packet, clip(r.Hex, 100), clip(hex.EncodeToString(want), 100))})
					break msgs
				}
			}
		}
	}
	return dedupe(vs)
}

func TestC02(t *testing.T) {
	runXProp(t, xProp{id: "C02",
		rule: "programs/options/messages as for C01; the canonical (reference) encoding of each message, followed by a drawn suffix (none, one byte, random bytes, a second copy of the message), is fed to every language's emitted decoder: the decoded object is dumped through a generated driver and must equal the message with fixed strings trimmed on their padded side, the read position must be exactly the message length, and re-encoding must give the same bytes. Non-trivial = non-empty suffix or a variable-length element (string, list, match payload) in the message; distinct = hash of (program, messages, languages).",
		eval: evalC02,
		cfg: func(rt *rapid.T, avoid map[string]bool) (dsl.GenCfg, int, dsl.ValCfg, bool) {
			c, n, v, _ := defaultXCfg(rt, avoid)
			return c, n, v, true
		},
		nontrivial: func(k xCase) bool {
			for _, m := range k.Msgs {
				if m.Suffix != "" {
					return true
				}
			}
			f := k.Prog.Features()
			return dsl.Has(f, "dyn") || dsl.Has(f, "match") || dsl.Has(f, "repeat:scalar:u16")
		},
	})
}

// ---------- C03: languages agree ----------

func evalC03(k xCase) []pbt.Violation {
	x := runCase(k, true)
	defer x.Cleanup()
	vs := commonViolations(k, x)
	var langs []string
	for _, l := range k.Langs {
		lr := x.Langs[l]
		if lr != nil && lr.BuildErr == nil && lr.Crash == "" {
			langs = append(langs, l)
		}
	}
	if len(langs) < 2 {
		return dedupe(vs)
	}
	// phase 1: encoders pairwise identical
	type enc struct{ lang, hex string }
	for mode := 0; mode < modesOf(x); mode++ {
		for i, m := range k.Msgs {
			var first *enc
			for _, l := range langs {
				r := x.Langs[l].Enc[mode][i]
				if !r.OK {
					vs = append(vs, pbt.Violation{Signature: "enc-error:" + l + ":" + errClass(r.Err), Detail: fmt.Sprintf("%s cannot encode %s: %s", l, m.Packet, clip(r.Err, 200))})
					continue
				}
				if first == nil {
					first = &enc{l, r.Hex}
					continue
				}
				if r.Hex != first.hex {
					a, _ := hex.DecodeString(first.hex)
					b, _ := hex.DecodeString(r.Hex)
					d := firstDiffByte(a, b)
					// attribute through the reference layout only to name the field; the verdict is differential
					leaf := leafAt(x.Ref[i].Layout[mode], max(0, d))
					vs = append(vs, pbt.Violation{Signature: "disagree:" + first.lang + "-" + l + ":" + leafClass(leaf), Detail: fmt.Sprintf("%s and %s encode the same %s message differently at byte %d: %s vs %s", first.lang, l, m.Packet, d, clip(first.hex, 100), clip(r.Hex, 100))})
				}
			}
		}
	}
	// phase 2: every decoder reads every encoder's bytes
	mode := modesOf(x) - 1
	for _, dl := range langs {
		var cmds []xlang.Cmd
		cmds = append(cmds, xlang.Cmd{Op: "CKS", Arg: fmt.Sprint(mode)})
		type src struct {
			msg  int
			lang string
		}
		var srcs []src
		for i, m := range k.Msgs {
			for _, el := range langs {
				r := x.Langs[el].Enc[mode][i]
				if r.OK {
					cmds = append(cmds, xlang.Cmd{Op: "DEC", Packet: m.Packet, Arg: r.Hex})
					srcs = append(srcs, src{i, el})
				}
			}
		}
		out, crash := x.Langs[dl].Built.Run(cmds)
		if crash != "" {
			vs = append(vs, pbt.Violation{Signature: "crash:" + dl, Detail: crash})
			continue
		}
		for j, s := range srcs {
			r := out[j+1]
			m := k.Msgs[s.msg]
			encHex := x.Langs[s.lang].Enc[mode][s.msg].Hex
			pk := k.Prog.PacketByName(m.Packet)
			switch {
			case !r.OK:
				vs = append(vs, pbt.Violation{Signature: "cross-dec-error:" + s.lang + ">" + dl, Detail: fmt.Sprintf("%s decoder rejects %s's encoding of %s: %s", dl, s.lang, m.Packet, clip(r.Err, 160))})
			case r.Consumed*2 != len(encHex):
				vs = append(vs, pbt.Violation{Signature: "cross-dec-consumed:" + s.lang + ">" + dl, Detail: fmt.Sprintf("%s consumed %d of %d bytes written by %s", dl, r.Consumed, len(encHex)/2, s.lang)})
			default:
				// the logical message: compare with the canonical value when the bytes are the canonical ones,
				// otherwise with what the encoder's own decoder reads
				want := ""
				if encHex == hex.EncodeToString(x.Ref[s.msg].Bytes[mode]) {
					want = x.Ref[s.msg].Canon[mode]
				} else {
					continue
				}
				if r.Dump != want {
					cls, d := dumpDiff(k.Prog, pk, r.Dump, want)
					vs = append(vs, pbt.Violation{Signature: "cross-dec-value:" + s.lang + ">" + dl + ":" + cls, Detail: fmt.Sprintf("%s reads %s's bytes of %s as a different message: %s", dl, s.lang, m.Packet, d)})
				}
			}
		}
	}
	return dedupe(vs)
}

func TestC03(t *testing.T) {
	runXProp(t, xProp{id: "C03",
		rule: "programs/options/messages as for C01, built for all five codec languages. Phase 1 (purely differential): the encoders' bytes for the same message must be pairwise identical. Phase 2: every language's bytes are fed to every language's decoder (all ordered pairs, including L=L): each must succeed, consume everything and dump the same logical message. Non-trivial = at least two languages applicable and a non-empty root packet; distinct = hash of (program, messages, languages); evaluations = (language, message) cells.",
		eval: evalC03, cfg: defaultXCfg,
		nontrivial: func(k xCase) bool { return len(k.Langs) >= 2 && len(k.Prog.RootPacket().Fields) > 0 },
	})
}

// ---------- C17: emitted self-tests build and pass ----------

var passRe = regexp.MustCompile(`(?m)^(?:--- PASS|PASS |test .* \.\.\. ok|ok$)`)

func evalC17(k xCase) []pbt.Violation {
	k.Tests = true
	k.Msgs = nil
	x := runCase(k, true)
	defer x.Cleanup()
	vs := commonViolations(k, x)
	ntop := len(k.Prog.Packets)
	for _, l := range k.Langs {
		lr := x.Langs[l]
		if lr == nil || lr.BuildErr != nil {
			continue
		}
		dir := filepath.Join(x.Dir, l)
		var r cli.Result
		ran, failed := 0, 0
		switch l {
		case "go":
			r = cli.Run(dir, 120*time.Second, nil, nil, filepath.Join(dir, "emitted.test"), "-test.v")
			ran = strings.Count(string(r.Stdout), "--- PASS") + strings.Count(string(r.Stdout), "--- FAIL")
			failed = strings.Count(string(r.Stdout), "--- FAIL")
		case "rust":
			r = cli.Run(dir, 120*time.Second, nil, nil, filepath.Join(dir, "emitted_tests"))
			ran = strings.Count(string(r.Stdout), " ... ok") + strings.Count(string(r.Stdout), " ... FAILED")
			failed = strings.Count(string(r.Stdout), " ... FAILED")
		case "java":
			var classes []string
			for name := range x.Files["java"] {
				if strings.HasPrefix(name, "test/") {
					c := strings.TrimSuffix(strings.TrimPrefix(name, "test/java/"), ".java")
					classes = append(classes, strings.ReplaceAll(c, "/", "."))
				}
			}
			args := append([]string{"-XX:TieredStopAtLevel=1", "-cp", filepath.Join(dir, "classes") + ":" + filepath.Join(xlang.RTBuild(), "java"), "Runner"}, classes...)
			r = cli.Run(dir, 120*time.Second, nil, nil, "java", args...)
			ran = strings.Count(string(r.Stdout), "PASS ") + strings.Count(string(r.Stdout), "FAIL ")
			failed = strings.Count(string(r.Stdout), "FAIL ")
		case "python":
			mod := strcase.ToSnake(k.Prog.RootPacket().Name) + "_test"
			env := []string{"PYTHONPATH=" + filepath.Join(dir, "out") + ":" + filepath.Join(xlang.RT(), "python"), "PYTHONDONTWRITEBYTECODE=1"}
			r = cli.Run(dir, 120*time.Second, nil, env, "python3", "-m", "unittest", "-v", mod)
			o := string(r.Stderr)
			ran = strings.Count(o, " ... ok") + strings.Count(o, " ... FAIL") + strings.Count(o, " ... ERROR")
			failed = strings.Count(o, " ... FAIL") + strings.Count(o, " ... ERROR")
		case "cpp":
			r = cli.Run(dir, 120*time.Second, nil, nil, filepath.Join(dir, "emitted_tests"))
			ran = strings.Count(string(r.Stdout), "\nPASS ") + strings.Count(string(r.Stdout), "\nFAIL ") + strings.Count("\n"+string(r.Stdout), "\nPASS ") - strings.Count(string(r.Stdout), "\nPASS ")
			ran = strings.Count("\n"+string(r.Stdout), "\nPASS ") + strings.Count("\n"+string(r.Stdout), "\nFAIL ")
			failed = strings.Count("\n"+string(r.Stdout), "\nFAIL ")
		}
		out := string(r.Stdout) + string(r.Stderr)
		switch {
		case r.Signal != "" || r.TimedOut:
			vs = append(vs, pbt.Violation{Signature: "selftest-crash:" + l, Detail: fmt.Sprintf("emitted %s self-tests died (%s): %s", l, r.Signal, clip(out, 300))})
		case failed > 0 || r.Exit != 0:
			vs = append(vs, pbt.Violation{Signature: "selftest-fails:" + l + ":" + selftestClass(out), Detail: fmt.Sprintf("emitted %s self-tests: %d run, %d failed, exit %d: %s", l, ran, failed, r.Exit, clip(failLines(out), 500))})
		case ran < ntop:
			vs = append(vs, pbt.Violation{Signature: "selftest-missing:" + l, Detail: fmt.Sprintf("only %d self-tests ran for %d declared packets", ran, ntop)})
		}
	}
	return dedupe(vs)
}

func failLines(out string) string {
	var ls []string
	for _, l := range strings.Split(out, "\n") {
		ll := strings.ToLower(l)
		if strings.Contains(ll, "fail") || strings.Contains(ll, "error") || strings.Contains(ll, "panic") || strings.Contains(ll, "expected") || strings.Contains(ll, "exc ") {
			ls = append(ls, strings.TrimSpace(l))
		}
		if len(ls) >= 6 {
			break
		}
	}
	return strings.Join(ls, " | ")
}

func selftestClass(out string) string {
	if strings.Contains(out, "called `Option::unwrap()` on a `None` value") || (strings.Contains(out, "panicked at") && strings.Contains(out, "_tests::test_")) {
		return "panicked-unwrap"
	}
	for _, l := range strings.Split(out, "\n") {
		ll := strings.ToLower(l)
		if strings.Contains(ll, "panic") || strings.Contains(ll, "error:") || strings.Contains(ll, "exception") || strings.Contains(ll, "exc ") || strings.Contains(ll, "assert") {
			l = numRe.ReplaceAllString(pathRe.ReplaceAllString(l, ""), "N")
			f := strings.Fields(l)
			if len(f) > 6 {
				f = f[:6]
			}
			return strings.Join(f, "_")
		}
	}
	return "assertion"
}

func TestC17(t *testing.T) {
	runXProp(t, xProp{id: "C17",
		rule: "well-formed programs (every field kind x repeat x nesting, every match key form, all option configurations; a quarter of the programs with non-canonical identifier shapes for packets and fields) are compiled; the self-tests emitted next to each codec are built and run with the language's own runner (go test binary with the real testify; rustc --test; a reflective JUnit stand-in over every *Test class; python -m unittest; the C++ test file against a 40-line gtest stand-in): they must build, every test must pass, and at least one test per declared top-level packet must have run. Non-trivial = the program contains a nested, a repeated or a match member; distinct = hash of (program, languages); evaluations = languages exercised.",
		eval: evalC17, tests: true,
		cfg: func(rt *rapid.T, avoid map[string]bool) (dsl.GenCfg, int, dsl.ValCfg, bool) {
			c, _, v, _ := defaultXCfg(rt, avoid)
			c.MoreEmpty = rapid.Bool().Draw(rt, "more_empty")
			c.WantMatch = rapid.Bool().Draw(rt, "want_match")
			// a packet that is named only inside an inline object of a referenced packet: the
			// sample of the root reaches it, the root's own declarations do not
			if !avoid["inline"] && !avoid["obj"] && !avoid["inline:obj"] && rapid.IntRange(0, 3).Draw(rt, "inline_chain") == 0 {
				c.PostProgram = dsl.AddInlineChain
			} else if !avoid["match"] && !avoid["obj"] && !avoid["repeat:obj"] && !avoid["dyn"] && rapid.IntRange(0, 4).Draw(rt, "match_chain") == 0 {
				// packets without a match field of their own that hold one that has
				c.PostProgram = dsl.AddMatchChain
			}
			return c, 1, v, false
		},
		nontrivial: func(k xCase) bool {
			f := k.Prog.Features()
			return dsl.Has(f, "match") || dsl.Has(f, "obj") || dsl.Has(f, "inline") || dsl.Has(f, "repeat:obj") || dsl.Has(f, "repeat:dyn")
		},
	})
}

var _ = os.Getenv
var _ = ref.Checksum
