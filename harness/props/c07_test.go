package props

import (
	"encoding/hex"
	"fmt"
	"github.com/xinchentechnote/fin-protoc/verifharness/cli"
	"os"
	"path/filepath"
	"regexp"
	"strings"
	"testing"

	"github.com/xinchentechnote/fin-protoc/verifharness/inproc"
	"github.com/xinchentechnote/fin-protoc/verifharness/xlang"

	"github.com/xinchentechnote/fin-protoc/verifharness/dsl"
	"github.com/xinchentechnote/fin-protoc/verifharness/pbt"
	"pgregory.net/rapid"
)

// the texts the generators' default branches emit for constructs they do not handle
var markerRe = regexp.MustCompile(`is not supported for|unknow type|unkown type|TODO unknow|[Uu]nsupported (numeric )?type|-- unsupport|unknown type for (en|de)code|error generating code`)

// evalC07: when compilation succeeds every emitted file is a valid program of its language
// against the runtime API, every declared type/member exists (the driver names them all),
// encode/decode steps exist (a default message round-trips), and no placeholder text appears.
func evalC07(k xCase) []pbt.Violation {
	k.Tests = true
	x := runCase(k, false)
	if x.Rejected != "" {
		return nil // a diagnostic instead of code is an accepted outcome for C07
	}
	vs := commonViolations(k, x)
	// the sixth target: the Lua script must load and run its top level under the API stub
	if res := inproc.Compile(x.Text, []string{"lua"}); res.OK() {
		x.Files["lua"] = res.Files["lua"]
		dir := filepath.Join(os.Getenv("VERIF_RUNDIR"), fmt.Sprintf("c07lua-%d-%d", os.Getpid(), xSeq.Add(1)))
		_ = os.MkdirAll(dir, 0o755)
		var hexes []string
		for i, m := range k.Msgs {
			if m.Packet == k.Prog.RootPacket().Name && i < len(x.Ref) {
				hexes = append(hexes, hex.EncodeToString(x.Ref[i].Bytes[0]))
			}
		}
		if _, ex := applicable(k.Prog, []string{"lua"}, pbt.AvoidTags("C15")); len(ex) > 0 {
			hexes = nil
		}
		lr := xlang.RunLua(k.Prog, res.Files["lua"], dir, hexes)
		os.RemoveAll(dir)
		if lr.LoadErr != "" {
			vs = append(vs, pbt.Violation{Signature: "lua-load:" + luaErrClass(k.Prog, lr.LoadErr), Detail: "the emitted Lua script does not load: " + clip(lr.LoadErr, 300)})
		} else {
			for _, run := range lr.Runs {
				if !run.OK {
					vs = append(vs, pbt.Violation{Signature: "lua-error:" + luaErrClass(k.Prog, run.Err), Detail: "the emitted Lua dissector raises an error on a declared message: " + clip(run.Err, 300)})
					break
				}
			}
		}
	}
	for _, l := range append(append([]string{}, k.Langs...), "lua") {
		for name, b := range x.Files[l] {
			for ln, line := range strings.Split(string(b), "\n") {
				if m := markerRe.FindString(line); m != "" {
					vs = append(vs, pbt.Violation{Signature: "marker:" + l + ":" + strings.ToLower(m), Detail: fmt.Sprintf("%s line %d contains placeholder text: %q", name, ln+1, clip(strings.TrimSpace(line), 120))})
					break
				}
				if l != "lua" && strings.HasPrefix(strings.TrimSpace(line), "-- ") {
					vs = append(vs, pbt.Violation{Signature: "marker:" + l + ":lua-comment", Detail: fmt.Sprintf("%s line %d is a '--' placeholder line: %q", name, ln+1, clip(line, 120))})
					break
				}
			}
		}
		lr := x.Langs[l]
		if lr == nil || lr.BuildErr != nil || lr.Crash != "" {
			continue
		}
		// a missing encode/decode step shows as a byte/dump mismatch on a default message
		for i := range k.Msgs {
			e, d := lr.Enc[0][i], lr.Dec[0][i]
			if !e.OK {
				vs = append(vs, pbt.Violation{Signature: "step-fails:enc:" + l + ":" + errClass(e.Err), Detail: fmt.Sprintf("%s: encoding a message of %s fails: %s", l, k.Msgs[i].Packet, clip(e.Err, 200))})
			} else if !d.OK {
				vs = append(vs, pbt.Violation{Signature: "step-fails:dec:" + l + ":" + errClass(d.Err), Detail: fmt.Sprintf("%s: decoding the declared encoding of %s fails: %s", l, k.Msgs[i].Packet, clip(d.Err, 200))})
			}
			if e.OK && d.OK && (d.Dump != x.Ref[i].Canon[0]) {
				cls, dd := dumpDiff(k.Prog, k.Prog.PacketByName(k.Msgs[i].Packet), d.Dump, x.Ref[i].Canon[0])
				vs = append(vs, pbt.Violation{Signature: "step-missing:" + l + ":" + cls, Detail: fmt.Sprintf("%s: a declared field is not carried through decode: %s", l, dd)})
			}
		}
	}
	if k.ViaCLI && cli.Bin() != "" && k.Text == "" && !dsl.Has(k.Prog.Features(), "len") {
		// "successful" is what the command reports: the same program without its root keyword is
		// refused by three of the six generators; the command may then fail, but when it reports
		// success every requested target must have its files
		q := k.Prog.Clone()
		q.RootPacket().Root = false
		all := append(append([]string{}, k.Langs...), "lua")
		trees, r, dir := compileCLI(dsl.PlainText(q), all, true)
		os.RemoveAll(dir)
		if r.Exit == 0 && !r.TimedOut {
			for _, l := range all {
				if len(trees[l]) == 0 {
					vs = append(vs, pbt.Violation{Signature: "cli-success-without-files:" + l, Detail: fmt.Sprintf("the command exits 0 for targets %v of a program without root packet, but wrote no file for %s", all, l)})
					break
				}
			}
		}
	}
	return dedupe(vs)
}

func TestC07(t *testing.T) {
	runXPropWith(t, xProp{id: "C07",
		rule: "well-formed programs including every identifier shape for packet and field names (UpperCamel, lowerCamel, snake_case, ALLCAPS, acronym runs such as ClOrdID, digits, underscores), fields whose names differ from their types, packets referenced before their declaration and empty packets, under all option configurations. When the in-process compile reports no diagnostics: (a) the emitted files of each codec language, including the emitted self-tests, must be accepted by the real toolchain against the stand-in runtime API (go build + test compile, rustc lib + --test, javac main + test, Python import of module and test module, g++ on header and test file); (b) a generated driver that names every declared packet type and every declared member at its declaration-site spelling must build, and a default message must survive decode (missing member or step); (c) no emitted file contains placeholder text ('not supported', 'unsupport', 'unknow', 'TODO', '-- ' lines outside Lua). A diagnostic with no files is an accepted outcome. Non-trivial = >= 2 packets or a composite member, and at least one non-canonical identifier shape; distinct = hash of (program, languages); evaluations = (language, message) cells.",
		eval: evalC07, tests: true, viaCLI: true,
		cfg: func(rt *rapid.T, avoid map[string]bool) (dsl.GenCfg, int, dsl.ValCfg, bool) {
			c, _, v, _ := defaultXCfg(rt, avoid)
			c.Shapes = !avoid["shapes"] && rapid.IntRange(0, 2).Draw(rt, "shapes") > 0
			if os.Getenv("VERIF_SHAPES") != "" {
				c.Shapes = true
			}
			if !avoid["match"] && !avoid["obj"] && !avoid["repeat:obj"] && !avoid["dyn"] && rapid.IntRange(0, 4).Draw(rt, "match_chain") == 0 {
				// packets without a match field of their own that hold one that has
				c.PostProgram = dsl.AddMatchChain
			}
			return c, 3, v, false
		},
		nontrivial: func(k xCase) bool {
			f := k.Prog.Features()
			composite := dsl.Has(f, "obj") || dsl.Has(f, "inline") || dsl.Has(f, "match") || dsl.Has(f, "repeat:obj") || dsl.Has(f, "repeat:inline")
			return (len(k.Prog.Packets) >= 2 || composite) && dsl.Has(f, "shape:field")
		},
		assume: []string{"the driver refers to members by the name used at their declaration site in each language (computed with the same strcase v0.3.0 conversions)"},
	}, optionValueSpelling)
}

var prefixOptRe = regexp.MustCompile(`((?:String|Array)PrefixLenType\s*=\s*)u(8|16|32|64)\b`)

// optionValueSpelling writes, in one case of twelve, the prefix-type options with the long type
// names (uint8 ...) that are aliases for field types. The compiler's own diagnostic lists only
// u8,u16,u32,u64 as option values, so a diagnostic is the expected outcome; what C07 demands is
// that a compiler which accepts the text also emits code for it that builds and works as u8 ...
func optionValueSpelling(rt *rapid.T, k *xCase) {
	if rapid.IntRange(0, 11).Draw(rt, "long_option_values") != 0 {
		return
	}
	text := k.Text
	if text == "" {
		text = dsl.PlainText(k.Prog)
	}
	if out := prefixOptRe.ReplaceAllString(text, "${1}uint$2"); out != text {
		k.Text = out
	}
}
