package props

import (
	"encoding/hex"
	"encoding/json"
	"fmt"
	"os"
	"path/filepath"
	"strings"
	"testing"

	"github.com/iancoleman/strcase"
	"github.com/xinchentechnote/fin-protoc/verifharness/cli"
	"github.com/xinchentechnote/fin-protoc/verifharness/dsl"
	"github.com/xinchentechnote/fin-protoc/verifharness/inproc"
	"github.com/xinchentechnote/fin-protoc/verifharness/pbt"
	"github.com/xinchentechnote/fin-protoc/verifharness/ref"
	"github.com/xinchentechnote/fin-protoc/verifharness/xlang"
	"pgregory.net/rapid"
)

type luaExpect struct {
	Abbr     string
	Off, Len int
	Kind     string // leaf kind
	Type     string
	Path     string
}

// expectedAdds lists the ProtoField-typed adds the declared layout implies: one per value leaf
// (scalars, strings, length-of, checksum), in wire order; prefixes are displayed as text labels.
func expectedAdds(lay *ref.Layout) []luaExpect {
	var out []luaExpect
	for _, l := range lay.Leaves {
		switch l.Kind {
		case "scalar", "fixed", "dyn", "len", "sum":
			out = append(out, luaExpect{strcase.ToSnake(l.Owner) + "." + strcase.ToSnake(l.Field), l.Off, l.Len, l.Kind, l.Type, l.Path})
		}
	}
	return out
}

func evalC15(k xCase) []pbt.Violation {
	p := k.Prog
	text := dsl.PlainText(p)
	if k.Text != "" {
		text = k.Text
	}
	res := inproc.Compile(text, []string{"lua"})
	if res.Panic != "" {
		return nil
	}
	if res.OK() && k.ViaCLI && cli.Bin() != "" {
		// the script as the command line tool leaves it in a directory that held an earlier revision
		if files, note := filesViaCLI(text, []string{"lua"}, res.Files); files != nil {
			res.Files = files
		} else {
			return []pbt.Violation{{External: true, Signature: "cli-fails-where-library-succeeds", Detail: note}}
		}
	}
	if !res.OK() {
		return []pbt.Violation{{Signature: "wellformed-rejected:" + msgClass(res.ParseErr+diagMsgs(res)), Detail: "the compiler rejects a well-formed program: " + clip(res.ParseErr+diagMsgs(res), 200)}}
	}
	base := os.Getenv("VERIF_RUNDIR")
	if base == "" {
		base = os.TempDir()
	}
	dir := filepath.Join(base, fmt.Sprintf("lua-%d-%d", os.Getpid(), xSeq.Add(1)))
	_ = os.MkdirAll(dir, 0o755)
	defer os.RemoveAll(dir)
	var hexes []string
	var lays []*ref.Layout
	for _, m := range k.Msgs {
		b, lay := ref.Encode(p, p.PacketByName(m.Packet), m.Val, nil)
		hexes = append(hexes, hex.EncodeToString(b))
		lays = append(lays, lay)
	}
	lr := xlang.RunLua(p, res.Files["lua"], dir, hexes)
	var vs []pbt.Violation
	if lr.LoadErr != "" {
		return []pbt.Violation{{Signature: "lua-load:" + luaErrClass(p, lr.LoadErr), Detail: "the emitted script does not load under the API stub: " + clip(lr.LoadErr, 300)}}
	}
	if lr.Crash != "" {
		return []pbt.Violation{{Signature: "lua-host-crash", Detail: lr.Crash}}
	}
	le := p.Opts.Effective().LE
	for i, run := range lr.Runs {
		want := expectedAdds(lays[i])
		if !run.OK {
			vs = append(vs, pbt.Violation{Signature: "lua-error:" + luaErrClass(p, run.Err), Detail: fmt.Sprintf("dissecting a %d-byte message raises a Lua error after %d of %d fields: %s", run.Len, len(run.Recs), len(want), clip(run.Err, 300))})
			break
		}
		bad := false
		for j := 0; j < len(want) || j < len(run.Recs); j++ {
			if j >= len(run.Recs) {
				w := want[j]
				vs = append(vs, pbt.Violation{Signature: "lua-field-missing:" + w.Kind + typeSuffix(w), Detail: fmt.Sprintf("field %s (%s, bytes %d..%d) is never added to the tree; %d of %d fields were", w.Path, w.Abbr, w.Off, w.Off+w.Len, len(run.Recs), len(want))})
				bad = true
				break
			}
			if j >= len(want) {
				g := run.Recs[j]
				vs = append(vs, pbt.Violation{Signature: "lua-field-extra", Detail: fmt.Sprintf("unexpected add of %s at %d..%d after the last declared field", g.Abbr, g.Off, g.Off+g.Len)})
				bad = true
				break
			}
			w, g := want[j], run.Recs[j]
			if g.Abbr != w.Abbr || g.Off != w.Off || g.Len != w.Len {
				cls := "range"
				if g.Abbr != w.Abbr {
					cls = "field"
				}
				prev := "first"
				if j > 0 {
					prev = want[j-1].Kind + typeSuffix(want[j-1])
				}
				vs = append(vs, pbt.Violation{Signature: "lua-" + cls + ":" + w.Kind + typeSuffix(w) + ":after=" + prev, Detail: fmt.Sprintf("add #%d: got %s bytes %d..%d, the declared layout has %s (%s) at %d..%d", j, g.Abbr, g.Off, g.Off+g.Len, w.Abbr, w.Path, w.Off, w.Off+w.Len)})
				bad = true
				break
			}
			if (w.Kind == "scalar" || w.Kind == "len" || w.Kind == "sum") && w.Len > 1 {
				if (g.Order == "le") != le {
					vs = append(vs, pbt.Violation{Signature: "lua-byteorder:" + w.Kind, Detail: fmt.Sprintf("%s is added with %s although LittleEndian = %v", w.Abbr, g.Order, le)})
					bad = true
					break
				}
			}
		}
		if !bad && run.Final != run.Len {
			vs = append(vs, pbt.Violation{Signature: "lua-final-offset", Detail: fmt.Sprintf("the main dissector finishes at offset %d of a %d-byte message", run.Final, run.Len)})
		}
		if bad {
			break
		}
	}
	return dedupe(vs)
}

func typeSuffix(w luaExpect) string {
	if w.Type != "" {
		return ":" + w.Type
	}
	return ""
}

func luaErrClass(p *dsl.Program, e string) string {
	return strings.TrimPrefix(buildErrClass(p, &xlang.BuildError{Lang: "lua", Stage: "run", Output: e}), "lua:run:")
}

func TestC15(t *testing.T) {
	c := pbt.New("C15", "exploration",
		"programs/options/messages as for C01 (every program has a root packet); the emitted Lua script is loaded unmodified by a Lua 5.3 host under a stub of the Wireshark API (Proto, ProtoField.*, base, DissectorTable, Tvb/TvbRange accessors, TreeItem add/le_add, pinfo.cols) and its main dissector is run over the reference encoding of each message. Oracle: the sequence of tree:add(fields.X, buf(off,len)) calls with a ProtoField first argument equals, field by field (every list element and nested packet included), the (field, offset, length) leaves of the reference layout map; multi-byte numeric fields use add/le_add according to the byte order; the dissector's local 'offset' at return (read with a debug return hook) equals the message length; no Lua error is raised (calling a helper that does not exist yet = 'attempt to call a nil value'; an out-of-range buf(off,len) raises like a Tvb does). Decorative adds (subtree labels, 'Len:'/'Size:' strings) are ignored. Non-trivial = a variable-length element or a nested / match packet is followed by another field; distinct = hash of (program, messages); evaluations = messages dissected.",
		"the Wireshark API is a stand-in written from the calls the generator emits; float accessors return 0 (values are not compared, only ranges)",
		"generated names avoid Lua reserved words")
	if p := pbt.ReplayPath(); p != "" {
		c.Direct(t, func() { k := loadCase[xCase](t, p); c.Eval(); c.Report(pbt.DirectTB(t), k, evalC15(k)) })
		return
	}
	avoidAll := pbt.AvoidTags("C15", "C11", "C12")
	c.SetRecheck(func(k any) []pbt.Violation { return evalC15(k.(xCase)) })
	c.ReplayKnown(t, func(raw json.RawMessage) []pbt.Violation {
		var k xCase
		if err := json.Unmarshal(raw, &k); err != nil || k.Prog == nil {
			return []pbt.Violation{{Signature: "bad-repro", Detail: fmt.Sprint(err)}}
		}
		return evalC15(k)
	})
	excluded := 0
	c.Check(t, func(rt *rapid.T) {
		cfg, nm, vc, _ := defaultXCfg(rt, avoidFor(avoidAll, []string{"lua"}))
		cfg.PostProgram = nil
		// lists of tens of thousands of elements cost the interpreted dissector and the recording
		// stub seconds and gigabytes; they are left to the codec checks
		cfg.NoHuge = true
		if rapid.IntRange(0, 4).Draw(rt, "inline_variant") == 0 {
			// the same inline object name with another layout in a second packet
			cfg.PostProgram = func(p *dsl.Program) { dsl.ShareInlineVariant(rt, p) }
		} else if rapid.IntRange(0, 3).Draw(rt, "second_match") == 0 {
			// two match fields in one packet, each on its own key; both keys stand before both tables
			cfg.WantMatch = true
			cfg.PostProgram = func(p *dsl.Program) { dsl.AddSecondMatch(rt, p) }
		}
		k := genXCase(rt, cfg, nm, vc, false)
		// the dissector is for the root packet
		var msgs []xMsg
		for _, m := range k.Msgs {
			if m.Packet == k.Prog.RootPacket().Name {
				msgs = append(msgs, m)
			}
		}
		k.Msgs = msgs
		ok, ex := applicable(k.Prog, []string{"lua"}, avoidAll)
		excluded += len(ex)
		c.Set("excluded_cells", excluded)
		if len(ok) == 0 || len(k.Msgs) == 0 {
			return
		}
		k.Langs = []string{"lua"}
		if cli.Bin() != "" && rapid.IntRange(0, 7).Draw(rt, "via_cli") == 0 {
			k.ViaCLI = true
			c.Class("script-written-by-cli-into-stale-directory")
		}
		if k.Text != "" {
			c.Class("respelled-text")
		}
		c.EvalN(len(k.Msgs))
		for _, f := range k.Prog.Features() {
			c.Class("feat:" + f)
		}
		if followsVariable(k.Prog.RootPacket()) {
			c.NonTrivial(pbt.Hash(k), func() any {
				return map[string]any{"dsl": clip(dsl.PlainText(k.Prog), 700), "message": clip(k.Msgs[0].Val.Tokens(k.Prog, k.Prog.RootPacket()), 300)}
			})
		}
		c.SetTags(k.Prog.Features())
		c.Report(rt, k, evalC15(k))
	})
}

// followsVariable: some variable-length / nested element of the root is followed by another field.
func followsVariable(k *dsl.Packet) bool {
	for i, f := range k.Fields {
		if i == len(k.Fields)-1 {
			break
		}
		if f.Repeat || f.Kind == dsl.KDyn || f.Kind == dsl.KObj || f.Kind == dsl.KInline || f.Kind == dsl.KMatch {
			return true
		}
	}
	return false
}
