package props

import (
	"encoding/hex"
	"encoding/json"
	"fmt"
	"strings"
	"testing"

	"github.com/xinchentechnote/fin-protoc/verifharness/cli"
	"github.com/xinchentechnote/fin-protoc/verifharness/dsl"
	"github.com/xinchentechnote/fin-protoc/verifharness/pbt"
	"github.com/xinchentechnote/fin-protoc/verifharness/xlang"
	"pgregory.net/rapid"
)

// commonViolations reports what every cross-language property treats as a failure of the
// emitted code before any byte is compared: rejection, build failure, process death.
func commonViolations(k xCase, x *xRun) []pbt.Violation {
	var vs []pbt.Violation
	if x.Panic != "" {
		return nil // C11
	}
	if x.Rejected != "" {
		return []pbt.Violation{{Signature: "wellformed-rejected:" + msgClass(x.Rejected), Detail: "the compiler rejects a well-formed program: " + clip(x.Rejected, 200)}}
	}
	for _, l := range k.Langs {
		lr := x.Langs[l]
		if lr == nil {
			continue
		}
		if lr.BuildErr != nil {
			if lr.BuildErr.Stage == "harness" {
				panic("harness: " + lr.BuildErr.Output)
			}
			sig := "build:" + buildErrClass(k.Prog, lr.BuildErr)
			if dsl.Has(k.Prog.Features(), "names:keyword") {
				// a different root cause from any build failure of a program with ordinary names
				sig = "keyword-name:" + sig
			}
			vs = append(vs, pbt.Violation{Signature: sig, Detail: fmt.Sprintf("emitted %s code does not build (%s): %s", l, lr.BuildErr.Stage, clip(firstLines(lr.BuildErr.Output, 6), 700))})
			continue
		}
		if lr.Crash != "" {
			vs = append(vs, pbt.Violation{Signature: "crash:" + l, Detail: lr.Crash})
		}
	}
	return vs
}

func firstLines(s string, n int) string {
	ls := strings.Split(s, "\n")
	if len(ls) > n {
		ls = ls[:n]
	}
	return strings.Join(ls, " | ")
}

func modesOf(x *xRun) int {
	if x.Modes == 0 {
		return 1
	}
	return x.Modes
}

// evalC01: emitted encoders produce exactly the reference bytes.
func evalC01(k xCase) []pbt.Violation {
	x := runCase(k, false)
	vs := commonViolations(k, x)
	for _, l := range k.Langs {
		lr := x.Langs[l]
		if lr == nil || lr.BuildErr != nil || lr.Crash != "" {
			continue
		}
		for mode := 0; mode < modesOf(x); mode++ {
			for i := range k.Msgs {
				r := lr.Enc[mode][i]
				want := x.Ref[i].Bytes[mode]
				if !r.OK {
					vs = append(vs, pbt.Violation{Signature: "enc-error:" + l + ":" + errClass(r.Err), Detail: fmt.Sprintf("%s encode of %s fails: %s", l, k.Msgs[i].Packet, clip(r.Err, 200))})
					break
				}
				got, _ := hex.DecodeString(r.Hex)
				if d := firstDiffByte(got, want); d >= 0 {
					leaf := leafAt(x.Ref[i].Layout[mode], d)
					where := "past the end"
					if leaf != nil {
						where = fmt.Sprintf("%s (%s, bytes %d..%d)", leaf.Path, leafClass(leaf), leaf.Off, leaf.Off+leaf.Len)
					}
					vs = append(vs, pbt.Violation{Signature: "enc:" + l + ":" + leafClass(leaf), Detail: fmt.Sprintf("%s encodes %s differently from the declared layout at byte %d, field %s: got %s want %s", l, k.Msgs[i].Packet, d, where, clip(r.Hex, 120), clip(hex.EncodeToString(want), 120))})
					break
				}
			}
		}
	}
	return dedupe(vs)
}

func errClass(e string) string {
	e = numRe.ReplaceAllString(e, "N")
	f := strings.Fields(e)
	if len(f) > 5 {
		f = f[:5]
	}
	return strings.Join(f, "_")
}

func dedupe(vs []pbt.Violation) []pbt.Violation {
	seen := map[string]bool{}
	var out []pbt.Violation
	for _, v := range vs {
		if !seen[v.Signature] {
			seen[v.Signature] = true
			out = append(out, v)
		}
	}
	return out
}

func nontrivialEncoding(k xCase, x *xRun) bool {
	for i := range k.Msgs {
		if len(x.Ref) <= i || len(x.Ref[i].Bytes[0]) < 2 {
			continue
		}
		for _, l := range x.Ref[i].Layout[0].Leaves {
			if (l.Kind == "scalar" && l.Len > 1) || l.Kind == "listprefix" || l.Kind == "strprefix" || l.Kind == "len" || l.Kind == "sum" || l.Kind == "fixed" {
				return true
			}
		}
	}
	return false
}

type xProp struct {
	id         string
	rule       string
	eval       func(xCase) []pbt.Violation
	cfg        func(rt *rapid.T, avoid map[string]bool) (dsl.GenCfg, int, dsl.ValCfg, bool)
	tests      bool
	viaCLI     bool
	nontrivial func(k xCase) bool
	assume     []string
}

var xAssume = []string{
	"emitted code is executed against stand-in runtimes written from the API the generators call (DESIGN 2.4, Appendix A); the real fin-proto-* runtimes, netty, JUnit and gtest are not installed",
	"generated names avoid target-language reserved words (open finding C07-F3: no generator escapes them); JavaPackage/GoPackage/GoModule are always set; values fit their fields (string length <= n / prefix capacity)",
	"NaN is excluded from float values",
}

// runXProp is the common test body of the cross-language properties.
func runXProp(t *testing.T, xp xProp) { runXPropWith(t, xp, nil) }

// runXPropWith lets a property post-process the drawn case (e.g. add twin messages).
func runXPropWith(t *testing.T, xp xProp, post func(rt *rapid.T, k *xCase)) {
	c := pbt.New(xp.id, "exploration", xp.rule, append(xAssume, xp.assume...)...)
	if p := pbt.ReplayPath(); p != "" {
		c.Direct(t, func() { k := loadCase[xCase](t, p); c.Eval(); c.Report(pbt.DirectTB(t), k, xp.eval(k)) })
		return
	}
	avoidAll := pbt.AvoidTags(xp.id)
	c.SetRecheck(func(k any) []pbt.Violation { return xp.eval(k.(xCase)) })
	c.ReplayKnown(t, func(raw json.RawMessage) []pbt.Violation {
		var k xCase
		if err := json.Unmarshal(raw, &k); err != nil || k.Prog == nil {
			return []pbt.Violation{{Signature: "bad-repro", Detail: fmt.Sprint(err)}}
		}
		return xp.eval(k)
	})
	excluded := 0
	c.Check(t, func(rt *rapid.T) {
		// most programs use only features every language supports, so that all pairs stay comparable;
		// one in four targets a single language and may use whatever that language supports
		langs := append([]string{}, xlang.Codecs...)
		if rapid.IntRange(0, 3).Draw(rt, "single_lang") == 0 {
			langs = []string{rapid.SampledFrom(xlang.Codecs).Draw(rt, "lang")}
		}
		cfg, nm, vc, sfx := xp.cfg(rt, avoidFor(avoidAll, langs))
		k := genXCase(rt, cfg, nm, vc, sfx)
		ok, ex := applicable(k.Prog, langs, avoidAll)
		excluded += len(ex)
		c.Set("excluded_cells", excluded)
		if len(ok) == 0 {
			return
		}
		k.Langs = ok
		k.Tests = xp.tests
		viaRate := 5
		if xp.viaCLI {
			viaRate = 3
		}
		if cli.Bin() != "" && rapid.IntRange(0, viaRate).Draw(rt, "via_cli") == 0 {
			k.ViaCLI = true
			c.Class("files-written-by-cli-into-stale-directories")
		}
		if rapid.IntRange(0, 2).Draw(rt, "all_generators") == 0 {
			k.AllGens = true
			c.Class("all-six-generators-over-one-model")
		}
		if post != nil {
			post(rt, &k)
		}
		if k.Text != "" {
			c.Class("respelled-text")
		}
		if k.WideSum {
			c.Class("wide-64-bit-checksum-values")
		}
		c.EvalN(len(ok) * len(k.Msgs))
		for _, l := range ok {
			c.Class("lang:" + l)
		}
		for _, f := range k.Prog.Features() {
			c.Class("feat:" + f)
		}
		if xp.nontrivial == nil || xp.nontrivial(k) {
			c.NonTrivial(pbt.Hash(k), func() any {
				return map[string]any{"dsl": clip(dsl.PlainText(k.Prog), 700), "langs": ok, "message": clip(k.Msgs[0].Val.Tokens(k.Prog, k.Prog.PacketByName(k.Msgs[0].Packet)), 300)}
			})
		}
		c.SetTags(k.Prog.Features())
		c.Report(rt, k, xp.eval(k))
	})
}

func defaultXCfg(rt *rapid.T, avoid map[string]bool) (dsl.GenCfg, int, dsl.ValCfg, bool) {
	// reserved words of the target languages as field names: excluded while finding C07-F3 is open
	cfg := dsl.GenCfg{MaxPackets: 4, MaxFields: 6, Avoid: avoid, KeywordNames: true}
	if rapid.IntRange(0, 2).Draw(rt, "kitchen") == 0 {
		cfg.KitchenSink = true
	}
	// several fields typed by one fixed-string MetaData entry, one of them padded: attributes
	// must stay with the field they are written on
	cfg.MetaShare = rapid.IntRange(0, 4).Draw(rt, "metashare") == 0
	// attribute fields interact (a checksum behind a length-of field covers the patched length)
	if rapid.IntRange(0, 3).Draw(rt, "len_and_sum") == 0 {
		cfg.WantLen, cfg.WantSum, cfg.WantMatch = true, true, rapid.Bool().Draw(rt, "las_match")
	}
	// identifier shapes (snake_case, lowerCamel, ACRONYMS, digits) for packets and fields: the
	// spelling a generator derives for a name must be the same at every site
	cfg.Shapes = !avoid["shapes"] && rapid.IntRange(0, 3).Draw(rt, "shapes") == 0
	return cfg, 4, dsl.ValCfg{MaxList: 3, LongList: pbt.Thorough()}, false
}

func TestC01(t *testing.T) {
	runXProp(t, xProp{id: "C01",
		rule: "well-formed programs (random, and 'kitchen-sink' roots holding every field kind plain and repeated) x option configurations x 4 messages each (boundary integers, float bit patterns, multi-byte UTF-8, empty/long lists) are compiled in process; the emitted Go, Rust, Java, Python and C++ codecs are built with the real toolchains against stand-in runtimes and a generated driver, and the bytes of every encoder are compared with an independent reference encoder (checksum algorithm registered and not registered). A mismatch is attributed to the first differing field through the reference layout map. Non-trivial = encoding of >= 2 bytes containing an option- or attribute-dependent element (multi-byte scalar, prefix, fixed string, length-of, checksum); distinct = hash of (program, messages, languages); evaluations = (language, message) cells.",
		eval: evalC01, cfg: defaultXCfg,
		nontrivial: func(k xCase) bool { return len(k.Msgs) > 0 && len(k.Prog.RootPacket().Fields) > 0 },
	})
}
