package props

import (
	"encoding/hex"
	"fmt"
	"strings"
	"testing"

	"github.com/xinchentechnote/fin-protoc/verifharness/dsl"
	"github.com/xinchentechnote/fin-protoc/verifharness/pbt"
	"github.com/xinchentechnote/fin-protoc/verifharness/ref"
	"github.com/xinchentechnote/fin-protoc/verifharness/xlang"
	"pgregory.net/rapid"
)

// leavesOf returns the leaves of a given kind in a layout.
func leavesOf(lay *ref.Layout, kind string) []ref.Leaf {
	var out []ref.Leaf
	for _, l := range lay.Leaves {
		if l.Kind == kind {
			out = append(out, l)
		}
	}
	return out
}

// tokenAt returns the dump token of the scalar leaf at path (walks the packet like dumpDiff).
func dumpTokenFor(p *dsl.Program, pk *dsl.Packet, dump string, wantPath string) (string, bool) {
	toks := strings.Fields(dump)
	pos := 0
	found, val := false, ""
	var walk func(k *dsl.Packet, path string) bool
	walk = func(k *dsl.Packet, path string) bool {
		for _, f := range k.Fields {
			n := 1
			fp := path + "." + f.Name
			if f.Repeat {
				if pos >= len(toks) {
					return false
				}
				fmt.Sscan(toks[pos], &n)
				pos++
			}
			for j := 0; j < n; j++ {
				ip := fp
				if f.Repeat {
					ip = fmt.Sprintf("%s[%d]", fp, j)
				}
				if pos >= len(toks) {
					return false
				}
				switch f.Kind {
				case dsl.KScalar, dsl.KLen, dsl.KSum, dsl.KFixed, dsl.KDyn:
					if ip == wantPath {
						found, val = true, toks[pos]
						return false
					}
					pos++
				case dsl.KObj:
					if !walk(p.PacketByName(f.Ref), ip) {
						return false
					}
				case dsl.KInline:
					if !walk(f.Inline, ip) {
						return false
					}
				case dsl.KMatch:
					if ip == wantPath {
						found, val = true, toks[pos]
						return false
					}
					t := p.PacketByName(toks[pos])
					pos++
					if t == nil || !walk(t, ip) {
						return false
					}
				}
			}
		}
		return true
	}
	walk(pk, pk.Name)
	return val, found
}

func setCallerValue(p *dsl.Program, pk *dsl.Packet, v dsl.Val, kind dsl.Kind, newVal uint64) dsl.Val {
	out := v
	out.F = append([]dsl.Val{}, v.F...)
	for i, f := range pk.Fields {
		if f.Kind == kind && !f.Repeat {
			out.F[i] = dsl.Val{U: newVal & maskOf(f.Type)}
		}
	}
	return out
}

func maskOf(t string) uint64 {
	switch dsl.ScalarSize(t) {
	case 1:
		return 0xff
	case 2:
		return 0xffff
	case 4:
		return 0xffffffff
	}
	return ^uint64(0)
}

// evalC04: the wire value of a length-of field is the size of the target's encoding, whatever
// the caller stored; decoders return the wire value.
func evalC04(k xCase) []pbt.Violation {
	x := runCase(k, false)
	vs := commonViolations(k, x)
	for _, l := range k.Langs {
		lr := x.Langs[l]
		if lr == nil || lr.BuildErr != nil || lr.Crash != "" {
			continue
		}
		mode := 0
		byTwin := map[string]string{} // message without caller value -> encoding
		for i, m := range k.Msgs {
			lay := x.Ref[i].Layout[mode]
			want := x.Ref[i].Bytes[mode]
			r := lr.Enc[mode][i]
			if !r.OK {
				vs = append(vs, pbt.Violation{Signature: "enc-error:" + l + ":" + errClass(r.Err), Detail: fmt.Sprintf("%s encode fails: %s", l, clip(r.Err, 200))})
				break
			}
			got, _ := hex.DecodeString(r.Hex)
			for _, lf := range leavesOf(lay, "len") {
				if lf.Off+lf.Len > len(got) || hex.EncodeToString(got[lf.Off:lf.Off+lf.Len]) != hex.EncodeToString(want[lf.Off:lf.Off+lf.Len]) {
					f := findField(k.Prog, lf.Owner, lf.Field)
					tk := "?"
					if f != nil {
						if t := findField(k.Prog, lf.Owner, f.Target); t != nil {
							tk = t.Kind.String()
						}
					}
					g := "(short)"
					if lf.Off+lf.Len <= len(got) {
						g = hex.EncodeToString(got[lf.Off : lf.Off+lf.Len])
					}
					vs = append(vs, pbt.Violation{Signature: "len-value:" + l + ":" + lf.Type + ":target=" + tk, Detail: fmt.Sprintf("%s writes %s into length field %s (bytes %d..%d); the target occupies %d bytes, expected %s", l, g, lf.Path, lf.Off, lf.Off+lf.Len, lay.Wire[lf.Path], hex.EncodeToString(want[lf.Off:lf.Off+lf.Len]))})
				}
			}
			// the payload itself must be the declared one, or the length check would be vacuous
			if len(leavesOf(lay, "len")) > 0 && len(got) != len(want) {
				vs = append(vs, pbt.Violation{Signature: "len-payload-size:" + l, Detail: fmt.Sprintf("%s wrote %d bytes where the declared layout has %d", l, len(got), len(want))})
			}
			// metamorphic: the caller's value is irrelevant
			pk := k.Prog.PacketByName(m.Packet)
			key := m.Packet + "|" + setCallerValue(k.Prog, pk, m.Val, dsl.KLen, 0).Tokens(k.Prog, pk)
			if prev, ok := byTwin[key]; ok && prev != r.Hex {
				vs = append(vs, pbt.Violation{Signature: "len-depends-on-caller:" + l, Detail: fmt.Sprintf("%s: two messages that differ only in the caller-supplied length value encode differently: %s vs %s", l, clip(prev, 80), clip(r.Hex, 80))})
			}
			byTwin[key] = r.Hex
			// decoders return the wire value
			d := lr.Dec[mode][i]
			if d.OK {
				for _, lf := range leavesOf(lay, "len") {
					if m.WireLen != nil {
						// a frame whose length field holds another value than the payload's size
						w := *m.WireLen
						if lf.Len < 8 {
							w &= uint64(1)<<(8*uint(lf.Len)) - 1
						}
						if tok, ok := dumpTokenFor(k.Prog, pk, d.Dump, lf.Path); ok && tok != fmt.Sprint(w) {
							vs = append(vs, pbt.Violation{Signature: "len-decoded-not-wire:" + l + ":" + lf.Type, Detail: fmt.Sprintf("%s decoder returns %s for length field %s although the frame carries %d there (the payload occupies %d bytes)", l, tok, lf.Path, w, lay.Wire[lf.Path])})
						}
						continue
					}
					if tok, ok := dumpTokenFor(k.Prog, pk, d.Dump, lf.Path); ok && tok != fmt.Sprint(lay.Wire[lf.Path]) {
						vs = append(vs, pbt.Violation{Signature: "len-decoded:" + l + ":" + lf.Type, Detail: fmt.Sprintf("%s decoder returns %s for length field %s whose wire value is %d", l, tok, lf.Path, lay.Wire[lf.Path])})
					}
				}
			} else if m.WireLen == nil { // a decoder may refuse a frame whose length field contradicts its payload
				vs = append(vs, pbt.Violation{Signature: "dec-error:" + l + ":" + errClass(d.Err), Detail: fmt.Sprintf("%s decoder rejects the canonical encoding: %s", l, clip(d.Err, 160))})
			}
		}
	}
	return dedupe(vs)
}

// twinMessages duplicates each message with a different caller-supplied length / checksum value.
func twinMessages(rt *rapid.T, k *xCase) {
	var out []xMsg
	for i, m := range k.Msgs {
		pk := k.Prog.PacketByName(m.Packet)
		out = append(out, m)
		g := rapid.SampledFrom([]uint64{0, 1, 0xffffffffffffffff, 0x1234, 77}).Draw(rt, fmt.Sprintf("garbage%d", i))
		t := m
		t.Val = setCallerValue(k.Prog, pk, m.Val, dsl.KLen, g)
		out = append(out, t)
	}
	// a frame of a peer that announces another length than the payload takes: decoders return
	// what is on the wire
	if len(out) > 0 {
		w := rapid.SampledFrom([]uint64{0, 1, 3, 0x7f, 0xfffe, 0x0102030405060708}).Draw(rt, "wire_len")
		t := out[0]
		t.WireLen = &w
		out = append(out, t)
	}
	k.Msgs = out
	addUpperHalfMessage(rt, k)
}

// addUpperHalfMessage: a one-byte length field holds up to 255: a payload in the upper half of
// that range (128..255 bytes) has the top bit set, where a signed intermediate goes wrong.
func addUpperHalfMessage(rt *rapid.T, k *xCase) {
	root := k.Prog.RootPacket()
	for try := 0; try < 10; try++ {
		v := dsl.GenMessage(rt, k.Prog, root, dsl.ValCfg{MaxList: 40 + 20*try, MaxStr: 60 + 10*try}, fmt.Sprintf("upper%d", try))
		if n, ok := u8TargetSize(k.Prog, root, v); ok && n >= 128 && n <= 255 {
			k.Msgs = append(k.Msgs, xMsg{Packet: root.Name, Val: v})
			break
		} else if !ok {
			break
		}
	}
}

// u8TargetSize returns the size of the target of the root's one-byte length-of field.
func u8TargetSize(p *dsl.Program, pk *dsl.Packet, v dsl.Val) (int, bool) {
	_, lay := ref.Encode(p, pk, v, nil)
	for _, l := range lay.Leaves {
		if l.Kind != "len" || dsl.ScalarSize(l.Type) != 1 {
			continue
		}
		f := findField(p, l.Owner, l.Field)
		if f == nil {
			continue
		}
		parent := l.Path[:len(l.Path)-len(l.Field)-1]
		if r, ok := lay.Ranges[parent+"."+f.Target]; ok {
			return r.Len, true
		}
	}
	return 0, false
}

func TestC04(t *testing.T) {
	xp := xProp{id: "C04",
		rule: "root packets with a length-of field (each unsigned width the language builds, inline and prefixed attribute spelling, match or object target, both byte orders) x payload alternatives and sizes from empty up to the width's capacity x caller-supplied length values {as drawn, 0, 1, max, garbage}. Oracle: in every language's bytes the length field's range (from the reference layout map) holds the size of the target's range in the declared width and configured order; two messages differing only in the caller's value encode identically (metamorphic); the total size equals the declared layout (so a different payload cannot make the check vacuous); the decoder's dump shows the wire value. Non-trivial = the program has a length-of field whose target is non-empty in some message and the caller value differs from it; distinct = hash of (program, messages, languages).",
		eval: evalC04,
		cfg: func(rt *rapid.T, avoid map[string]bool) (dsl.GenCfg, int, dsl.ValCfg, bool) {
			return dsl.GenCfg{MaxPackets: 4, MaxFields: 4, MinPackets: 2, WantLen: true, WantMatch: rapid.Bool().Draw(rt, "wantmatch"), Avoid: avoid}, 3, dsl.ValCfg{MaxList: 3, LongList: true}, false
		},
		nontrivial: func(k xCase) bool { return dsl.Has(k.Prog.Features(), "len") },
	}
	c := xp
	_ = c
	runXPropWith(t, xp, twinMessages)
}

var _ = xlang.Codecs
