package props

import (
	"encoding/json"
	"fmt"
	"os"
	"strings"

	"github.com/xinchentechnote/fin-protoc/verifharness/dsl"
	"github.com/xinchentechnote/fin-protoc/verifharness/pbt"
	"pgregory.net/rapid"
)

// RapidSpeller draws spelling choices from rapid.
type RapidSpeller struct {
	T    *rapid.T
	Tag  string
	Used map[string]int // site kind -> how many non-plain choices were made
}

// Choose implements dsl.Speller.
func (s *RapidSpeller) Choose(site string, n int) int {
	v := rapid.IntRange(0, n-1).Draw(s.T, s.Tag+":"+site)
	if v != 0 && s.Used != nil {
		kind := site
		if i := strings.IndexByte(site, ':'); i > 0 {
			kind = site[:i]
		}
		s.Used[kind]++
	}
	return v
}

// textCase is a generated DSL text together with what it was made from.
type textCase struct {
	Text      string       `json:"text"`
	Origin    string       `json:"origin"` // "syntax" | "program"
	Toks      []dsl.Tok    `json:"-"`
	Prog      *dsl.Program `json:"-"`
	NComments int          `json:"ncomments"`
	Sites     []string     `json:"sites"`
}

// genText draws a syntactically valid text: half grammar-derived (syntactic validity only),
// half a rendering of a well-formed program with random spelling.
func genText(rt *rapid.T, c *pbt.Collector, mode dsl.CommentMode, wild bool, synAvoid map[string]bool) textCase {
	var tc textCase
	if rapid.Bool().Draw(rt, "origin_syntax") {
		tc.Origin = "syntax"
		tc.Toks = dsl.GenSyntax(rt, dsl.SynCfg{Avoid: synAvoid})
	} else {
		tc.Origin = "program"
		tc.Prog = dsl.GenProgram(rt, dsl.GenCfg{Docs: !synAvoid["doc"], Avoid: progAvoidFromSyn(synAvoid)})
		tc.Toks = dsl.Tokens(tc.Prog, &RapidSpeller{T: rt, Tag: "sp"}, dsl.RenderOpts{})
	}
	allowed := func(cls string) bool { return !synAvoid["comment:"+cls] }
	switch os.Getenv("VERIF_COMMENTS") {
	case "none":
		mode = dsl.NoComments
	case "decl":
		mode = dsl.DeclComments
	case "":
	default:
		only := os.Getenv("VERIF_COMMENTS")
		allowed = func(cls string) bool { return cls == only }
	}
	tc.Sites = dsl.Decorate(rt, tc.Toks, mode, "cm", allowed)
	tc.NComments = len(tc.Sites)
	tc.Text, _ = dsl.Layout(tc.Toks, dsl.RandLayout{T: rt, Label: "lay", Wild: wild})
	return tc
}

func progAvoidFromSyn(a map[string]bool) map[string]bool {
	out := map[string]bool{}
	for _, k := range []string{"pad:noarg", "doc:objectfield", "doc:multiline"} {
		if a[k] {
			out[k] = true
		}
	}
	return out
}

func mustJSON(v any) json.RawMessage {
	b, err := json.Marshal(v)
	if err != nil {
		panic(err)
	}
	return b
}

func clip(s string, n int) string {
	if len(s) > n {
		return s[:n] + fmt.Sprintf("...(+%d)", len(s)-n)
	}
	return s
}
