package props

import (
	"encoding/json"
	"fmt"
	"os"
	"path/filepath"
	"strings"
	"testing"
	"time"

	"github.com/xinchentechnote/fin-protoc/verifharness/cli"
	"github.com/xinchentechnote/fin-protoc/verifharness/dsl"
	"github.com/xinchentechnote/fin-protoc/verifharness/inproc"
	"github.com/xinchentechnote/fin-protoc/verifharness/pbt"
	"pgregory.net/rapid"
)

type c11Case struct {
	Text  string `json:"text"`
	Class string `json:"class"`
	// OutOfProcess: run through the CLI / C library instead of in process (inputs that may kill
	// the process with a fatal error rather than a recoverable panic)
	OutOfProcess bool `json:"oop,omitempty"`
}

var hostile = []string{
	"", " ", "\n", "\x00", "packet", "packet A", "packet A {", "packet A { u8", "packet A { u8 x", "`", "\"", "'", "@", "@leftPad", "@leftPad(",
	"packet A { @leftPad() char[3] x, }", "packet A { @rightPad() char[3] x, }", "MetaData M { u8 x, }", "MetaData M { A b, }", "MetaData M { u8 x `d`, x y, }",
	"packet A { match k as m { 1 : B, }, }", "packet A { u8 k, match k as m { 1 : B }, }", "root packet A { u16 l @lengthOf(b), }",
	"packet A { @leftPad('0') u8 x, }", "packet A { @leftPad('0') string x, }", "packet A { @leftPad('0') B b, }", "packet A { @leftPad('0') In { u8 x, }, }",
	"packet A { In { match k as m { 1 : B, }, }, }", "packet A { In { l @lengthOf(x), }, }", "packet A { x @calculatedFrom(\"C\"), }", "packet A { x @lengthOf(y), B y, } packet B {}",
	"options { }", "options { LittleEndian = }", "options { X = 1 }", "packet A { char[0] x, zchar[0] y, }", "packet A { char[99999999999999999999] x, }",
	"packet A { char[007] x, repeat char[1] y, }", "packet A { u8 k, match k as m { 99999999999999999999 : B, }, } packet B {}",
	"packet \xff\xfe {}", "packet A {} \x00", "// only a comment", "//", "packet A { u8 x, } //", "packet A{u8 x `unterminated",
	"root packet A { B b, } packet B { u8 x, }", "packet A { B b, }", "root packet A { } root packet B { }",
	"root packet A { u8 t, Inner { u8 k, match k as body { 1 : B, }, }, } packet B { u8 x, }",
	"root packet A { Inner { u32 s @calculatedFrom(\"X\"), Deep { B b, repeat B bs, }, }, } packet B { u8 x, }",
	"root packet A { u8 k, match k as m { 1 : B, }, u8 k2, match k2 as m2 { 1 : B, 2 : C, }, } packet B { } packet C { string s, }",
	strings.Repeat("{", 200), strings.Repeat("packet A { In { ", 50), strings.Repeat("[", 300),
}

func evalC11(k c11Case) []pbt.Violation {
	var vs []pbt.Violation
	if !k.OutOfProcess {
		// a fatal error (stack overflow) kills this process: leave the input where the driver finds it
		if dir := os.Getenv("VERIF_RUNDIR"); dir != "" {
			b, _ := json.Marshal(map[string]any{"text": k.Text, "class": k.Class, "oop": true})
			_ = os.WriteFile(filepath.Join(dir, fmt.Sprintf("current-input-%s.json", os.Getenv("VERIF_SHARD"))), b, 0o644)
		}
		limit := 30 * time.Second
		if len(k.Text) > 20000 {
			limit = 180 * time.Second
		}
		if !inproc.WithTimeout(limit, func() {
			if _, _, pmsg, psig := inproc.Format(k.Text); pmsg != "" {
				vs = append(vs, pbt.Violation{Signature: "panic:" + psig, Detail: "FormatPacketDsl panics: " + pmsg})
			}
		}) {
			return []pbt.Violation{{Signature: "hang:format", Detail: fmt.Sprintf("FormatPacketDsl did not return within %v on a %d-byte input", limit, len(k.Text)), Fatal: true}}
		}
		if !inproc.WithTimeout(limit, func() {
			res := inproc.Compile(k.Text, inproc.Langs)
			if res.Panic != "" {
				vs = append(vs, pbt.Violation{Signature: "panic:" + res.PanicSig, Detail: "compile panics: " + res.Panic})
			}
		}) {
			return []pbt.Violation{{Signature: "hang:compile", Detail: fmt.Sprintf("parse/generate did not return within %v on a %d-byte input", limit, len(k.Text)), Fatal: true}}
		}
		return vs
	}
	// out of process: CLI compile, CLI format -f, C library
	dir := cli.Scratch("c11")
	defer os.RemoveAll(dir)
	in := filepath.Join(dir, "in.dsl")
	_ = os.WriteFile(in, []byte(k.Text), 0o644)
	check := func(entry string, r cli.Result) {
		out := string(r.Stdout) + "\n" + string(r.Stderr)
		switch {
		case r.TimedOut:
			// only a small input makes a 120 s run a hang beyond doubt; larger ones are inconclusive
			if len(k.Text) < 4096 {
				vs = append(vs, pbt.Violation{Signature: "hang:" + entry, Detail: entry + " did not terminate within 120 s on a " + fmt.Sprint(len(k.Text)) + "-byte input"})
			}
		case r.Signal != "":
			vs = append(vs, pbt.Violation{Signature: "signal:" + entry + ":" + crashSite(out), Detail: entry + " killed by " + r.Signal + ": " + clip(out, 300)})
		case strings.Contains(out, "panic:") || strings.Contains(out, "fatal error:"):
			vs = append(vs, pbt.Violation{Signature: "crash:" + entry + ":" + crashSite(out), Detail: entry + " crashed: " + clip(out, 300)})
		}
	}
	if cli.Bin() != "" {
		args := []string{"compile", "-f", in}
		for _, l := range inproc.Langs {
			args = append(args, cli.Flags[l], filepath.Join(dir, "o_"+l))
		}
		check("compile", cli.Run(dir, 120*time.Second, nil, nil, cli.Bin(), args...))
		cp := filepath.Join(dir, "fmt.dsl")
		_ = os.WriteFile(cp, []byte(k.Text), 0o644)
		check("format-f", cli.Run(dir, 120*time.Second, nil, nil, cli.Bin(), "format", "-f", cp))
		if !strings.Contains(k.Text, "\x00") && k.Text != "" && len(k.Text) < 100000 {
			check("format-d", cli.Run(dir, 120*time.Second, nil, nil, cli.Bin(), "format", "-d", k.Text))
		}
	}
	if drv, lib := os.Getenv("VERIF_LIBDRIVER"), os.Getenv("VERIF_LIB"); drv != "" && lib != "" {
		// three calls on the same text in one process, each result freed by the caller as the
		// header demands
		check("clib", cli.Run(dir, 120*time.Second, nil, nil, drv, lib, in, in, in))
	}
	return vs
}

func crashSite(out string) string {
	if strings.Contains(out, "stack overflow") || strings.Contains(out, "stack exceeds") {
		// the innermost frames of a runaway recursion say where it loops
		return "stack-overflow:" + inproc.PanicSite(out)
	}
	return inproc.PanicSite(out)
}

// mutate breaks a valid text at the token level or byte level.
func mutate(rt *rapid.T, text string) string {
	if text == "" {
		return "{"
	}
	switch rapid.IntRange(0, 5).Draw(rt, "mut_kind") {
	case 0: // truncate
		return text[:rapid.IntRange(0, len(text)-1).Draw(rt, "mut_cut")]
	case 1: // delete a token
		ts, _ := dsl.Lex(text)
		if len(ts) < 2 {
			return text + "{"
		}
		i := rapid.IntRange(0, len(ts)-1).Draw(rt, "mut_del")
		var b strings.Builder
		for j, t := range ts {
			if j != i {
				b.WriteString(t.Text)
				if t.Type == "COMMENT" {
					b.WriteString("\n")
				} else {
					b.WriteString(" ")
				}
			}
		}
		return b.String()
	case 2: // duplicate a token
		ts, _ := dsl.Lex(text)
		if len(ts) < 1 {
			return text + "}"
		}
		i := rapid.IntRange(0, len(ts)-1).Draw(rt, "mut_dup")
		var b strings.Builder
		for j, t := range ts {
			n := 1
			if j == i {
				n = 2
			}
			for ; n > 0; n-- {
				b.WriteString(t.Text)
				if t.Type == "COMMENT" {
					b.WriteString("\n")
				} else {
					b.WriteString(" ")
				}
			}
		}
		return b.String()
	case 3: // insert a hostile byte
		i := rapid.IntRange(0, len(text)).Draw(rt, "mut_pos")
		c := rapid.SampledFrom([]string{"`", "\"", "'", "@", "\x00", "\xff", "{", "}", "[", "//", "\\"}).Draw(rt, "mut_byte")
		return text[:i] + c + text[i:]
	case 4: // swap two tokens
		ts, _ := dsl.Lex(text)
		if len(ts) < 2 {
			return text
		}
		i := rapid.IntRange(0, len(ts)-2).Draw(rt, "mut_swap")
		ts[i], ts[i+1] = ts[i+1], ts[i]
		var b strings.Builder
		for _, t := range ts {
			b.WriteString(t.Text)
			if t.Type == "COMMENT" {
				b.WriteString("\n")
			} else {
				b.WriteString(" ")
			}
		}
		return b.String()
	default: // replace an identifier by another token of the text
		ts, _ := dsl.Lex(text)
		if len(ts) < 2 {
			return text
		}
		i := rapid.IntRange(0, len(ts)-1).Draw(rt, "mut_rep_i")
		j := rapid.IntRange(0, len(ts)-1).Draw(rt, "mut_rep_j")
		ts[i].Text = ts[j].Text
		var b strings.Builder
		for _, t := range ts {
			b.WriteString(t.Text)
			if t.Type == "COMMENT" {
				b.WriteString("\n")
			} else {
				b.WriteString(" ")
			}
		}
		return b.String()
	}
}

func cyclicText(rt *rapid.T) string {
	switch rapid.IntRange(0, 3).Draw(rt, "cyc_kind") {
	case 0:
		return "root packet A {\n u8 x,\n A self,\n}\n"
	case 1:
		return "root packet A {\n B b,\n}\npacket B {\n repeat A back,\n}\n"
	case 2:
		return "root packet A {\n u8 k,\n match k as body {\n 1 : A,\n },\n}\n"
	default:
		n := rapid.SampledFrom([]int{30, 120, 300}).Draw(rt, "deep_n")
		var b strings.Builder
		b.WriteString("root packet A {\n")
		for i := 0; i < n; i++ {
			fmt.Fprintf(&b, "In%d {\n", i)
		}
		b.WriteString("u8 x,\n")
		for i := 0; i < n; i++ {
			b.WriteString("},\n")
		}
		b.WriteString("}\n")
		return b.String()
	}
}

func genC11(rt *rapid.T, c *pbt.Collector, avoid map[string]bool) c11Case {
	classes := []string{"syntax", "syntax", "syntax", "program", "program", "fault", "fault", "mutant", "mutant", "mutant", "hostile", "bytes"}
	cls := rapid.SampledFrom(classes).Draw(rt, "class")
	if rapid.IntRange(0, 59).Draw(rt, "oop_class") == 0 {
		cls = "cyclic-or-deep"
	}
	k := c11Case{Class: cls}
	switch cls {
	case "syntax":
		toks := dsl.GenSyntax(rt, dsl.SynCfg{Avoid: avoid, Deep: 2})
		dsl.Decorate(rt, toks, dsl.AnywhereComments, "cm", nil)
		k.Text, _ = dsl.Layout(toks, dsl.RandLayout{T: rt, Label: "lay"})
	case "program":
		p := dsl.GenProgram(rt, dsl.GenCfg{Docs: true, Shapes: true, Avoid: avoid})
		k.Text, _ = dsl.Render(p, &RapidSpeller{T: rt, Tag: "sp"}, dsl.RandLayout{T: rt, Label: "lay"}, dsl.RenderOpts{})
	case "fault":
		p := dsl.GenProgram(rt, dsl.GenCfg{Docs: true, Avoid: avoid})
		fc := rapid.SampledFrom(dsl.FaultClasses).Draw(rt, "fault_class")
		if q, _ := dsl.Inject(rt, p, fc); q != nil {
			p = q
		}
		k.Text = dsl.PlainText(p)
		// no root packet at all is another ill-formedness the generators must survive
		if rapid.IntRange(0, 5).Draw(rt, "no_root") == 0 {
			k.Text = strings.Replace(k.Text, "root packet", "packet", 1)
			k.Class = "fault-no-root"
		}
	case "mutant":
		var base string
		if rapid.Bool().Draw(rt, "mut_base_syntax") {
			toks := dsl.GenSyntax(rt, dsl.SynCfg{Avoid: avoid})
			base, _ = dsl.Layout(toks, dsl.PlainLayout{})
		} else {
			base = dsl.PlainText(dsl.GenProgram(rt, dsl.GenCfg{Avoid: avoid, MaxPackets: 3}))
		}
		k.Text = mutate(rt, base)
	case "hostile":
		k.Text = rapid.SampledFrom(hostile).Draw(rt, "hostile")
		if avoid["pad:noarg"] && strings.Contains(k.Text, "Pad()") {
			k.Text = "packet A {}"
		}
	case "bytes":
		k.Text = string(rapid.SliceOfN(rapid.Byte(), 0, 64).Draw(rt, "bytes"))
	case "cyclic-or-deep":
		k.Text = cyclicText(rt)
		k.OutOfProcess = true
	}
	return k
}

func TestC11(t *testing.T) {
	c := pbt.New("C11", "exploration",
		"inputs: grammar-derived valid texts with every optional element toggled (deep inline nesting, attributes of every kind on every field kind, match/length/checksum inside inline objects), random spellings of well-formed programs with odd identifier shapes, programs with one injected semantic fault (19 classes, plus no root packet), token/byte-level mutants of those (truncate, delete, duplicate, swap, replace, hostile byte), hostile constants, random bytes, and self-referential / mutually recursive / very deeply nested declarations. In process: FormatPacketDsl and parse->diagnostics->six generators with recover(); a sample and all recursion-prone inputs additionally run out of process through `compile`, `format -f`, `format -d` and the exported C function (signal, Go panic/fatal error output, or timeout = violation). Non-trivial = the input reaches a visitor (no lexer/parser error) or is a mutant/fault of such an input; distinct = hash of text. Thorough adds native coverage-guided fuzzing of the formatter and the compiler.",
		"a timeout is reported only after the process exceeded 120 s on one input", "stdout chatter of the tool is ignored")
	if p := pbt.ReplayPath(); p != "" {
		c.Direct(t, func() { k := loadCase[c11Case](t, p); c.Eval(); c.Report(pbt.DirectTB(t), k, evalC11(k)) })
		return
	}
	avoid := pbt.AvoidTags("C11")
	c.SetRecheck(func(k any) []pbt.Violation { return evalC11(k.(c11Case)) })
	c.ReplayKnown(t, func(raw json.RawMessage) []pbt.Violation {
		var k c11Case
		_ = json.Unmarshal(raw, &k)
		return evalC11(k)
	})
	n := 0
	c.Check(t, func(rt *rapid.T) {
		k := genC11(rt, c, avoid)
		if avoid["class:"+k.Class] {
			c.Class("excluded:" + k.Class)
			return
		}
		n++
		c.Eval()
		c.Class(k.Class)
		// the oracle first: it bounds every call in time; the classification below calls the
		// formatter again and would hang with it
		vsNow := evalC11(k)
		reaches := k.OutOfProcess
		if !k.OutOfProcess && len(vsNow) == 0 {
			_, ferr, _, _ := inproc.Format(k.Text)
			reaches = ferr == nil
		}
		if reaches || k.Class == "mutant" || strings.HasPrefix(k.Class, "fault") {
			c.NonTrivial(pbt.Hash(k.Text), func() any { return map[string]any{"class": k.Class, "text": clip(k.Text, 400)} })
		}
		if reaches {
			c.Class("reaches-visitor")
		}
		c.Report(rt, k, vsNow)
		// a sample of the in-process inputs also goes through the real entry points
		if !k.OutOfProcess && rapid.IntRange(0, 59).Draw(rt, "also_out_of_process") == 0 {
			ko := k
			ko.OutOfProcess = true
			c.Eval()
			c.Class("sampled-out-of-process")
			c.Report(rt, ko, evalC11(ko))
		}
	})
}
