package props

import (
	"encoding/json"
	"fmt"
	"os"
	"regexp"
	"strconv"
	"strings"
	"testing"

	"github.com/xinchentechnote/fin-protoc/verifharness/dsl"
	"github.com/xinchentechnote/fin-protoc/verifharness/inproc"
	"github.com/xinchentechnote/fin-protoc/verifharness/pbt"
	"pgregory.net/rapid"
)

type c12Case struct {
	Text  string     `json:"text"`
	// Langs: the targets requested on the command line (empty: all six)
	Langs []string   `json:"langs,omitempty"`
	Fault *dsl.Fault `json:"fault,omitempty"` // nil: well-formed, must be accepted
	First int        `json:"first,omitempty"` // line span of the offending declaration
	Last  int        `json:"last,omitempty"`
	// NoOutputs: no output flag on the command line (the DSL is only checked)
	NoOutputs bool `json:"no_outputs,omitempty"`
	// NoWord: the command line omits the `compile` word
	NoWord bool `json:"no_word,omitempty"`
}

var semDiagRe = regexp.MustCompile(`Syntax error at line (\d+), column (-?\d+): (.*)`)
var parseDiagRe = regexp.MustCompile(`\{(\d+) (-?\d+) ([^{}]*)`)

type diagLine struct {
	Line int
	Msg  string
}

func diagsOf(out string) []diagLine {
	var ds []diagLine
	for _, m := range semDiagRe.FindAllStringSubmatch(out, -1) {
		n, _ := strconv.Atoi(m[1])
		ds = append(ds, diagLine{n, m[3]})
	}
	for _, l := range strings.Split(out, "\n") {
		if strings.Contains(l, "syntax errors found") {
			for _, m := range parseDiagRe.FindAllStringSubmatch(l, -1) {
				n, _ := strconv.Atoi(m[1])
				ds = append(ds, diagLine{n, m[3]})
			}
			break // cobra prints the error twice
		}
	}
	return ds
}

func evalC12(k c12Case) []pbt.Violation {
	langs := k.Langs
	if len(langs) == 0 {
		langs = inproc.Langs
	}
	if k.NoOutputs {
		// no output flag at all: the DSL is only checked
		langs = nil
	}
	trees, r, dir := compileCLI(k.Text, langs, !k.NoWord)
	defer os.RemoveAll(dir)
	out := string(r.Stdout) + "\n" + string(r.Stderr)
	nfiles := 0
	for _, t := range trees {
		nfiles += len(t)
	}
	crashed := r.Signal != "" || strings.Contains(out, "panic:") || strings.Contains(out, "fatal error:") || strings.Contains(out, "goroutine ")
	if k.Fault == nil {
		switch {
		case crashed:
			return []pbt.Violation{{Signature: "wellformed-crashes:" + inproc.PanicSite(out), Detail: "compile crashes on a well-formed DSL: " + clip(out, 300)}}
		case r.Exit != 0 || len(diagsOf(out)) > 0:
			msg := "?"
			if ds := diagsOf(out); len(ds) > 0 {
				msg = ds[0].Msg
			}
			return []pbt.Violation{{Signature: "wellformed-rejected:" + msgClass(msg), Detail: fmt.Sprintf("a well-formed DSL is rejected (exit %d): %s", r.Exit, clip(out, 300))}}
		}
		for _, l := range langs {
			if len(trees[l]) == 0 {
				return []pbt.Violation{{Signature: "wellformed-no-output:" + l, Detail: "accepted, but no file was written for " + l}}
			}
		}
		return nil
	}
	cls := k.Fault.Class
	var vs []pbt.Violation
	if crashed {
		return []pbt.Violation{{Signature: "fault-crashes:" + cls, Detail: "compile crashes instead of diagnosing: " + clip(out, 300)}}
	}
	if r.Exit == 0 {
		return []pbt.Violation{{Signature: "fault-accepted:" + cls, Detail: fmt.Sprintf("ill-formed DSL (%s, offending declaration at lines %d-%d) is accepted with exit 0 and %d files", cls, k.First, k.Last, nfiles)}}
	}
	if nfiles > 0 {
		vs = append(vs, pbt.Violation{Signature: "fault-writes-files:" + cls, Detail: fmt.Sprintf("rejected, but %d output files were written", nfiles)})
	}
	ds := diagsOf(out)
	if len(ds) == 0 {
		return append(vs, pbt.Violation{Signature: "fault-no-diagnostic:" + cls, Detail: "non-zero exit without a 'Syntax error at line N' diagnostic: " + clip(out, 300)})
	}
	named := func(msg string) bool {
		lm := strings.ToLower(msg)
		for _, id := range k.Fault.Ident {
			if id != "" && strings.Contains(lm, strings.ToLower(id)) {
				return true
			}
		}
		for _, w := range k.Fault.Words {
			if ok, _ := regexp.MatchString("(?i)"+w, msg); ok {
				return true
			}
		}
		return false
	}
	okLine, okName := false, false
	for _, d := range ds {
		in := d.Line >= k.First && d.Line <= k.Last
		nm := named(d.Msg)
		if in && nm {
			return vs
		}
		okLine = okLine || in
		okName = okName || nm
	}
	switch {
	case okName && !okLine:
		vs = append(vs, pbt.Violation{Signature: "fault-wrong-line:" + cls, Detail: fmt.Sprintf("the offence is named, but at line %d; the offending declaration spans lines %d-%d: %q", ds[0].Line, k.First, k.Last, clip(ds[0].Msg, 160))})
	default:
		vs = append(vs, pbt.Violation{Signature: "fault-not-named:" + cls, Detail: fmt.Sprintf("no diagnostic names the offence (%v) at lines %d-%d; got line %d: %q", k.Fault.Ident, k.First, k.Last, ds[0].Line, clip(ds[0].Msg, 160))})
	}
	return vs
}

// msgClass reduces a diagnostic message to its constant part.
func msgClass(m string) string {
	f := strings.Fields(m)
	if len(f) > 3 {
		f = f[:3]
	}
	return strings.Join(f, "_")
}

func TestC12(t *testing.T) {
	c := pbt.New("C12", "fault_enumeration",
		"a well-formed program is rendered with a random layout (so line numbers vary) and compiled through the built CLI: it must be accepted silently with files for all six targets (a third of the programs once more with a random subset of the targets, or without the optional root packet for Go/Java/Rust). Then one fault of every class of DESIGN Appendix C (19 classes: duplicates, second root, unknown/illegal options, misplaced/duplicate length-of, undeclared references) is injected at a drawn applicable site (thorough: up to 3 sites per class) and the faulty text must be rejected: exit != 0, no output file, no crash, and a diagnostic whose line lies in the span of the offending declaration and that names the offending identifier or the class. Non-trivial = faulty case whose offending line is > 1 in a program with >= 3 declarations, or an accepted program using >= 3 distinct constructs; distinct = hash of text.",
		"'names the offence' accepts the offending identifier/literal or a class keyword (Appendix C); exact wording is not pinned")
	if p := pbt.ReplayPath(); p != "" {
		c.Direct(t, func() { replayHistory(p, evalC12); k := loadCase[c12Case](t, p); c.Eval(); c.Report(pbt.DirectTB(t), k, evalC12(k)) })
		return
	}
	avoid := pbt.AvoidTags("C12", "C11")
	c.SetRecheck(func(k any) []pbt.Violation { return evalC12(k.(c12Case)) })
	c.SetPure()
	c.ReplayKnown(t, func(raw json.RawMessage) []pbt.Violation {
		var k c12Case
		_ = json.Unmarshal(raw, &k)
		return evalC12(k)
	})
	c.Check(t, func(rt *rapid.T) {
		p := dsl.GenProgram(rt, dsl.GenCfg{MaxPackets: 5, Docs: true, Avoid: avoid, Shapes: true, AnyOrder: true, KeywordNames: true})
		// the same inline object declared in two packets is legal and keeps per-name state busy
		if rapid.IntRange(0, 3).Draw(rt, "share_inline") == 0 {
			dsl.ShareInline(rt, p)
		}
		lay := dsl.RandLayout{T: rt, Label: "lay"}
		text, _ := dsl.Render(p, dsl.Plain{}, lay, dsl.RenderOpts{NoPadRewrites: true})
		k := c12Case{Text: text}
		c.Eval()
		c.Class("wellformed")
		feats := p.Features()
		if len(feats) >= 6 {
			c.NonTrivial(pbt.Hash(text), func() any { return map[string]any{"accepted": clip(text, 500)} })
		}
		c.Report(rt, k, evalC12(k))
		// acceptance must not depend on which targets are requested; the root packet is optional
		// for the targets that do not need one (Go, Java, Rust), as in the repository's own samples
		switch rapid.IntRange(0, 5).Draw(rt, "subset_variant") {
		case 0:
			sub := rapid.SliceOfNDistinct(rapid.SampledFrom(inproc.Langs), 1, 5, rapid.ID[string]).Draw(rt, "subset")
			sk := c12Case{Text: text, Langs: sub}
			c.Eval()
			c.Class("wellformed:target-subset")
			c.Report(rt, sk, evalC12(sk))
		case 2:
			sk := c12Case{Text: text, NoOutputs: true, NoWord: rapid.Bool().Draw(rt, "wf_noword")}
			c.Eval()
			c.Class("wellformed:no-output-flag")
			c.Report(rt, sk, evalC12(sk))
		case 1:
			if !dsl.Has(feats, "len") {
				q := p.Clone()
				q.RootPacket().Root = false
				qtext, _ := dsl.Render(q, dsl.Plain{}, dsl.RandLayout{T: rt, Label: "rootless_lay"}, dsl.RenderOpts{NoPadRewrites: true})
				sub := rapid.SliceOfNDistinct(rapid.SampledFrom([]string{"rust", "go", "java"}), 1, 3, rapid.ID[string]).Draw(rt, "rootless_subset")
				sk := c12Case{Text: qtext, Langs: sub}
				c.Eval()
				c.Class("wellformed:no-root-packet")
				c.Report(rt, sk, evalC12(sk))
			}
		}
		ndecl := len(p.Packets)
		for _, pk := range p.Packets {
			ndecl += len(pk.Fields)
		}
		sites := 1
		if pbt.Thorough() {
			sites = 3
		}
		for _, cls := range dsl.FaultClasses {
			if avoid["fault:"+cls] {
				c.Class("excluded:" + cls)
				continue
			}
			for s := 0; s < sites; s++ {
				q, f := dsl.Inject(rt, p, cls)
				if q == nil {
					c.Class("inapplicable:" + cls)
					break
				}
				ftext, spans := dsl.Render(q, dsl.Plain{}, dsl.RandLayout{T: rt, Label: fmt.Sprintf("flay_%s_%d", cls, s)}, dsl.RenderOpts{NoPadRewrites: true})
				sp, ok := spans[dsl.FaultMark]
				if !ok {
					panic("no span for fault " + cls)
				}
				fk := c12Case{Text: ftext, Fault: f, First: sp.First, Last: sp.Last}
				c.Eval()
				c.Class("fault:" + cls)
				if sp.First > 1 && ndecl >= 3 {
					c.NonTrivial(pbt.Hash(ftext), func() any {
						return map[string]any{"fault": cls, "lines": []int{sp.First, sp.Last}, "text": clip(ftext, 500)}
					})
				}
				c.Report(rt, fk, evalC12(fk))
				if rapid.IntRange(0, 5).Draw(rt, fmt.Sprintf("check_only_%s_%d", cls, s)) == 0 {
					// the same faulty text with no output flag (a check-only run), with or without the
					// `compile` word, or with only some of the targets
					ck := fk
					switch rapid.IntRange(0, 2).Draw(rt, fmt.Sprintf("check_only_kind_%s_%d", cls, s)) {
					case 0:
						ck.NoOutputs = true
					case 1:
						ck.NoOutputs, ck.NoWord = true, true
					default:
						ck.Langs = rapid.SliceOfNDistinct(rapid.SampledFrom(inproc.Langs), 1, 2, rapid.ID[string]).Draw(rt, fmt.Sprintf("fault_subset_%s_%d", cls, s))
						ck.NoWord = rapid.Bool().Draw(rt, fmt.Sprintf("fault_noword_%s_%d", cls, s))
					}
					c.Eval()
					c.Class("fault-with-few-or-no-output-flags")
					c.Report(rt, ck, evalC12(ck))
				}
			}
		}
	})
}
