package props

import (
	"encoding/hex"
	"fmt"
	"os"
	"path/filepath"
	"regexp"
	"sort"
	"strings"
	"sync"
	"sync/atomic"
	"time"

	"github.com/iancoleman/strcase"
	"github.com/xinchentechnote/fin-protoc/verifharness/cli"
	"github.com/xinchentechnote/fin-protoc/verifharness/dsl"
	"github.com/xinchentechnote/fin-protoc/verifharness/inproc"
	"github.com/xinchentechnote/fin-protoc/verifharness/pbt"
	"github.com/xinchentechnote/fin-protoc/verifharness/ref"
	"github.com/xinchentechnote/fin-protoc/verifharness/xlang"
	"pgregory.net/rapid"
)

// xMsg is one message of a packet plus the bytes appended after it for decoding.
type xMsg struct {
	Packet string  `json:"packet"`
	Val    dsl.Val `json:"val"`
	Suffix string  `json:"suffix,omitempty"` // hex
	// WireLen: the decoders are given the reference bytes with every length-of field overwritten
	// by this value (a peer that announces another length); they must return that wire value
	WireLen *uint64 `json:"wire_len,omitempty"`
}

// decodeInput is what the DEC command of message i is fed in a mode.
func decodeInput(p *dsl.Program, m xMsg, rm refMsg, mode int) []byte {
	b := append([]byte{}, rm.Bytes[mode]...)
	if m.WireLen == nil {
		return b
	}
	le := p.Opts.Effective().LE
	for _, lf := range rm.Layout[mode].Leaves {
		if lf.Kind != "len" {
			continue
		}
		for j := 0; j < lf.Len; j++ {
			sh := uint(8 * j)
			if !le {
				sh = uint(8 * (lf.Len - 1 - j))
			}
			b[lf.Off+j] = byte(*m.WireLen >> sh)
		}
	}
	return b
}

// xCase is a replayable cross-language case.
type xCase struct {
	Prog  *dsl.Program `json:"prog"`
	Msgs  []xMsg       `json:"msgs"`
	Langs []string     `json:"langs"`
	Tests bool         `json:"tests,omitempty"` // also build (and for C17 run) the emitted self-tests
	// ViaCLI: take the emitted files from the built CLI writing into directories that already hold
	// longer files of the same names (a previous, larger revision), not from the in-process maps
	ViaCLI bool `json:"via_cli,omitempty"`
	// Text, when set, is the DSL text to compile instead of the plain rendering of Prog: the same
	// program in another spelling (long type names, attributes before or behind the name, key
	// lists expanded or folded, optional separators, ...) and layout, which means the same (C08)
	Text string `json:"text,omitempty"`
	// WideSum: in the registered pass the services of 64-bit checksum fields return values that
	// need all 64 bits (not for Java, whose service interface returns an Integer)
	WideSum bool `json:"wide_sum,omitempty"`
	// AllGens: all six generators run over the one parsed model, in the order of cmd.Compile
	// (Lua, Rust, Go, Java, Python, C++), as when every output flag is given; only the files of
	// Langs are used. A generator that changes the model shows in the targets after it.
	AllGens bool `json:"all_gens,omitempty"`
}

// langRun is what one language did with a case.
type langRun struct {
	Lang     string
	BuildErr *xlang.BuildError
	Crash    string
	// per message, per checksum mode (0 = not registered, 1 = registered)
	Enc   [2][]xlang.Res
	Dec   [2][]xlang.Res
	Built *xlang.Built
}

// refMsg is the reference view of one message.
type refMsg struct {
	Bytes  [2][]byte
	Layout [2]*ref.Layout
	Canon  [2]string // token dump a conforming decoder yields
}

type xRun struct {
	Text     string
	Rejected string // non-empty: the compiler reported diagnostics / errors for a well-formed program
	Panic    string
	Files    map[string]map[string][]byte
	Langs    map[string]*langRun
	Ref      []refMsg
	HasSum   bool
	Modes    int
	Dir      string
}

var xSeq atomic.Int64

func hasSum(p *dsl.Program) bool { return dsl.Has(p.Features(), "sum") }

// runCase compiles the program in process, builds every requested language and runs all
// messages through encode and decode.
func runCase(k xCase, keep bool) *xRun {
	p := k.Prog
	x := &xRun{Text: dsl.PlainText(p), Langs: map[string]*langRun{}, HasSum: hasSum(p)}
	if k.Text != "" {
		x.Text = k.Text
	}
	// the generators run in the order cmd.Compile uses (Lua, Rust, Go, Java, Python, C++)
	var ordered []string
	for _, l := range inproc.Langs {
		for _, want := range k.Langs {
			if want == l {
				ordered = append(ordered, l)
			}
		}
	}
	if k.AllGens {
		ordered = append([]string{}, inproc.Langs...)
	}
	res := inproc.Compile(x.Text, ordered)
	if k.AllGens {
		// a target that was not asked for may refuse the model (no root packet)
		for l := range res.GenErr {
			wanted := false
			for _, w := range k.Langs {
				wanted = wanted || w == l
			}
			if !wanted {
				delete(res.GenErr, l)
			}
		}
	}
	if res.Panic != "" {
		x.Panic = res.Panic
		return x
	}
	if !res.OK() {
		x.Rejected = res.ParseErr + diagMsgs(res)
		for l, e := range res.GenErr {
			x.Rejected += " " + l + ": " + e
		}
		return x
	}
	x.Files = res.Files
	if k.ViaCLI && cli.Bin() != "" {
		if files, note := filesViaCLI(x.Text, k.Langs, res.Files); files != nil {
			x.Files = files
			res.Files = files
		} else {
			x.Rejected = "CLI: " + note
			return x
		}
	}
	modes := 1
	if len(xlang.Algs(p)) > 0 {
		modes = 2 // second pass with the test algorithm registered
	}
	x.Modes = modes
	// reference
	for _, m := range k.Msgs {
		pk := p.PacketByName(m.Packet)
		var rm refMsg
		for mode := 0; mode < modes; mode++ {
			reg := mode == 1
			algs := xlang.Algs(p)
			b, lay := ref.EncodeWide(p, pk, m.Val, func(a string) bool { _, ok := algs[a]; return reg && ok }, k.WideSum)
			rm.Bytes[mode], rm.Layout[mode] = b, lay
			rm.Canon[mode] = ref.Canon(p, pk, m.Val, lay).Tokens(p, pk)
		}
		x.Ref = append(x.Ref, rm)
	}
	base := os.Getenv("VERIF_RUNDIR")
	if base == "" {
		base = os.TempDir()
	}
	x.Dir = filepath.Join(base, fmt.Sprintf("xl-%d-%d", os.Getpid(), xSeq.Add(1)))
	var wg sync.WaitGroup
	var mu sync.Mutex
	for _, l := range k.Langs {
		if l == "lua" {
			continue
		}
		wg.Add(1)
		go func(l string) {
			defer wg.Done()
			lr := &langRun{Lang: l}
			dir := filepath.Join(x.Dir, l)
			_ = os.MkdirAll(dir, 0o755)
			var b *xlang.Built
			var be *xlang.BuildError
			switch l {
			case "python":
				b, be = xlang.BuildPython(p, res.Files[l], dir)
			case "go":
				b, be = xlang.BuildGo(p, res.Files[l], dir, k.Tests)
			case "rust":
				b, be = xlang.BuildRust(p, res.Files[l], dir, k.Tests)
			case "java":
				b, be = xlang.BuildJava(p, res.Files[l], dir, k.Tests)
			case "cpp":
				b, be = xlang.BuildCpp(p, res.Files[l], dir, k.Tests)
			}
			lr.BuildErr, lr.Built = be, b
			if be == nil {
				var cmds []xlang.Cmd
				for mode := 0; mode < modes; mode++ {
					cks := fmt.Sprint(mode)
					if mode == 1 && k.WideSum {
						cks = "2"
					}
					cmds = append(cmds, xlang.Cmd{Op: "CKS", Arg: cks})
					for i, m := range k.Msgs {
						pk := p.PacketByName(m.Packet)
						cmds = append(cmds, xlang.Cmd{Op: "ENC", Packet: m.Packet, Arg: m.Val.Tokens(p, pk)})
						sfx := m.Suffix
						if sfx == "SELF" {
							sfx = hex.EncodeToString(x.Ref[i].Bytes[mode])
						}
						cmds = append(cmds, xlang.Cmd{Op: "DEC", Packet: m.Packet, Arg: hex.EncodeToString(decodeInput(p, m, x.Ref[i], mode)) + sfx})
					}
				}
				out, crash := b.Run(cmds)
				lr.Crash = crash
				if out != nil {
					i := 0
					for mode := 0; mode < modes; mode++ {
						i++ // CKS
						for range k.Msgs {
							lr.Enc[mode] = append(lr.Enc[mode], out[i])
							lr.Dec[mode] = append(lr.Dec[mode], out[i+1])
							i += 2
						}
					}
				}
			}
			mu.Lock()
			x.Langs[l] = lr
			mu.Unlock()
		}(l)
	}
	wg.Wait()
	if !keep {
		x.Cleanup()
	}
	return x
}

// Cleanup removes the scratch tree of a run.
func (x *xRun) Cleanup() {
	if x.Dir != "" {
		os.RemoveAll(x.Dir)
	}
}

var (
	pathRe  = regexp.MustCompile(`(?:/[\w.\-]+)+/`)
	numRe   = regexp.MustCompile(`\d+`)
	quoteRe = regexp.MustCompile("[`'\"‘’]([^`'\"‘’]*)[`'\"‘’]")
)

// buildErrClass reduces a compiler message to a root-cause class: the first error line with
// paths, positions and the program's own identifiers removed.
func buildErrClass(p *dsl.Program, e *xlang.BuildError) string {
	line := ""
	for _, l := range strings.Split(e.Output, "\n") {
		ll := strings.ToLower(l)
		if strings.Contains(ll, "error") || strings.Contains(l, ".go:") || strings.Contains(ll, "exception") || strings.Contains(ll, "syntaxerror") || strings.Contains(ll, "nameerror") {
			line = l
			break
		}
	}
	if line == "" {
		for _, l := range strings.Split(e.Output, "\n") {
			if strings.TrimSpace(l) != "" {
				line = l
			}
		}
	}
	// compilers append suggestions that vary with the program's identifiers
	for _, cut := range []string{"; did you mean", ". Did you mean", " Did you mean", "; use "} {
		if i := strings.Index(line, cut); i > 0 {
			line = line[:i]
		}
	}
	line = pathRe.ReplaceAllString(line, "")
	// the program's identifiers in every case conversion
	var names []string
	add := func(n string) {
		for _, v := range []string{n, strcase.ToCamel(n), strcase.ToSnake(n), strcase.ToLowerCamel(n), strings.ToLower(n), strings.ToUpper(n)} {
			if len(v) >= 3 {
				names = append(names, v)
			}
		}
	}
	for _, fp := range xlang.Flatten(p) {
		add(fp.P.Name)
		for _, f := range fp.P.Fields {
			add(f.Name)
		}
	}
	sort.Slice(names, func(i, j int) bool { return len(names[i]) > len(names[j]) })
	for _, n := range names {
		line = strings.ReplaceAll(line, n, "ID")
	}
	line = numRe.ReplaceAllString(line, "N")
	line = strings.Join(strings.Fields(line), " ")
	if len(line) > 110 {
		line = line[:110]
	}
	return e.Lang + ":" + e.Stage + ":" + line
}

// leafAt finds the layout leaf containing byte offset off.
func leafAt(lay *ref.Layout, off int) *ref.Leaf {
	for i := range lay.Leaves {
		l := &lay.Leaves[i]
		if off >= l.Off && off < l.Off+l.Len {
			return l
		}
	}
	if n := len(lay.Leaves); n > 0 {
		return &lay.Leaves[n-1]
	}
	return nil
}

func firstDiffByte(a, b []byte) int {
	n := min(len(a), len(b))
	for i := 0; i < n; i++ {
		if a[i] != b[i] {
			return i
		}
	}
	if len(a) != len(b) {
		return n
	}
	return -1
}

// leafClass names the kind of wire element for signatures.
func leafClass(l *ref.Leaf) string {
	if l == nil {
		return "end"
	}
	switch l.Kind {
	case "scalar":
		return "scalar:" + l.Type
	case "listprefix":
		return "listprefix(" + l.Elem + ")"
	case "strprefix":
		return "strprefix"
	case "len", "sum":
		return l.Kind + ":" + l.Type
	}
	return l.Kind
}

// genXCase draws program + messages for the cross-language properties.
func genXCase(rt *rapid.T, cfg dsl.GenCfg, nmsgs int, vc dsl.ValCfg, suffixes bool) xCase {
	p := dsl.GenProgram(rt, cfg)
	k := xCase{Prog: p, Langs: append([]string{}, xlang.Codecs...)}
	root := p.RootPacket()
	huge := !cfg.NoHuge && rapid.IntRange(0, 3).Draw(rt, "huge_values") == 0
	if huge {
		// the values need a home: a dynamic string and a list of one-byte numbers at the top level
		// of the root packet, and prefix types that can count beyond 32767 (mostly the two-byte one)
		hasDyn, hasList := false, false
		for _, f := range root.Fields {
			hasDyn = hasDyn || (f.Kind == dsl.KDyn && !f.Repeat)
			hasList = hasList || (f.Kind == dsl.KScalar && f.Repeat && dsl.ScalarSize(f.Type) == 1 && f.Type != "char")
		}
		if !hasDyn && !cfg.Avoid["dyn"] && root.FieldByName("HugeText") == nil {
			root.Fields = append(root.Fields, &dsl.Field{Kind: dsl.KDyn, Name: "HugeText"})
		}
		if !hasList && !cfg.Avoid["repeat"] && !cfg.Avoid["repeat:scalar"] && root.FieldByName("HugeBytes") == nil {
			root.Fields = append(root.Fields, &dsl.Field{Kind: dsl.KScalar, Type: "u8", Name: "HugeBytes", Repeat: true})
		}
		for _, o := range []*string{&p.Opts.StrPrefix, &p.Opts.ArrPrefix} {
			if *o != "" && *o != "u16" && rapid.IntRange(0, 2).Draw(rt, "huge_prefix") > 0 {
				*o = rapid.SampledFrom([]string{"", "u16"}).Draw(rt, "huge_prefix_type")
			}
		}
	}
	for i := 0; i < nmsgs; i++ {
		pk := root
		if i%3 == 2 && len(p.Packets) > 1 {
			pk = p.Packets[rapid.IntRange(0, len(p.Packets)-1).Draw(rt, fmt.Sprintf("msg%d_packet", i))]
		}
		vci := vc
		if i > 0 {
			vci.KeyPick = i // message 0 draws its key, the others walk through the table from the last key backwards
			vci.KeyPick = 1000 - i
		}
		if i == 1 && huge {
			vci.Huge = true
		}
		m := xMsg{Packet: pk.Name, Val: dsl.GenMessage(rt, p, pk, vci, fmt.Sprintf("m%d", i))}
		if !lenFits(p, pk, m.Val) {
			// the payload must fit the length-of field's width (C04's domain): retry small, else skip
			m.Val = dsl.GenMessage(rt, p, pk, dsl.ValCfg{MaxList: 1, MaxStr: 3}, fmt.Sprintf("m%ds", i))
			if !lenFits(p, pk, m.Val) {
				continue
			}
		}
		if suffixes {
			switch rapid.IntRange(0, 3).Draw(rt, fmt.Sprintf("msg%d_suffix", i)) {
			case 1:
				m.Suffix = "00"
			case 2:
				m.Suffix = hex.EncodeToString(rapid.SliceOfN(rapid.Byte(), 1, 9).Draw(rt, fmt.Sprintf("msg%d_sfx", i)))
			case 3:
				m.Suffix = "SELF"
			}
		}
		k.Msgs = append(k.Msgs, m)
	}
	if !cfg.NoHuge && rapid.Bool().Draw(rt, "upper_half_payload") {
		addUpperHalfMessage(rt, &k)
	}
	if rapid.IntRange(0, 3).Draw(rt, "respell") == 0 {
		k.Text, _ = dsl.Render(p, &RapidSpeller{T: rt, Tag: "xsp"}, dsl.RandLayout{T: rt, Label: "xlay"}, dsl.RenderOpts{NoPadRewrites: true})
	}
	return k
}

// applicable filters languages by the open findings' "lang:feature" tags.
func applicable(p *dsl.Program, langs []string, avoid map[string]bool) (ok []string, excluded []string) {
	feats := p.Features()
	for _, l := range langs {
		bad := false
		for tag := range avoid {
			if !strings.HasPrefix(tag, l+":") {
				continue
			}
			// "lang:featA&featB": every listed feature must be present
			all := true
			for _, f := range strings.Split(strings.TrimPrefix(tag, l+":"), "&") {
				if !dsl.Has(feats, f) {
					all = false
					break
				}
			}
			if all {
				bad = true
				break
			}
		}
		if bad {
			excluded = append(excluded, l)
		} else {
			ok = append(ok, l)
		}
	}
	return
}

// avoidFor turns "lang:feature" tags into generator tags for a set of target languages.
func avoidFor(avoid map[string]bool, langs []string) map[string]bool {
	out := map[string]bool{}
	for t := range avoid {
		if strings.Contains(t, "&") {
			continue // conjunctions are handled by the applicability filter only
		}
		for _, l := range langs {
			if strings.HasPrefix(t, l+":") {
				out[strings.TrimPrefix(t, l+":")] = true
			}
		}
		if !strings.Contains(t, ":") || strings.HasPrefix(t, "all:") {
			out[strings.TrimPrefix(t, "all:")] = true
		}
	}
	return out
}

var _ = pbt.Hash

// lenFits reports whether every length-of target of the message fits its field's width.
func lenFits(p *dsl.Program, pk *dsl.Packet, v dsl.Val) bool {
	_, lay := ref.Encode(p, pk, v, nil)
	for _, l := range lay.Leaves {
		if l.Kind != "len" {
			continue
		}
		// the target's range is recorded under the owner's path
		f := findField(p, l.Owner, l.Field)
		if f == nil {
			continue
		}
		parent := l.Path[:len(l.Path)-len(l.Field)-1]
		r, ok := lay.Ranges[parent+"."+f.Target]
		if ok && dsl.ScalarSize(l.Type) < 8 && uint64(r.Len) >= uint64(1)<<(8*uint(dsl.ScalarSize(l.Type))) {
			return false
		}
	}
	return true
}

func findField(p *dsl.Program, owner, name string) *dsl.Field {
	for _, fp := range xlang.Flatten(p) {
		if fp.P.Name == owner {
			return fp.P.FieldByName(name)
		}
	}
	return nil
}

// prevRevision returns an earlier revision of the same DSL text: an edit that a user might have
// undone, chosen so that some emitted files keep their exact size (a number type replaced by
// another of the same name length, two integer match keys of equal length exchanged).
func prevRevision(text string, pick int) string {
	swaps := [][2]string{{"u32", "f32"}, {"i32", "u32"}, {"u16", "i16"}, {"i64", "f64"}, {"u64", "i64"}, {"f32", "i32"}, {"u8", "i8"}}
	n := len(swaps)
	for j := 0; j < n; j++ {
		sw := swaps[(pick+j)%n]
		re := regexp.MustCompile(`(^|[\s{])` + sw[0] + `(\s+[A-Za-z_])`)
		if loc := re.FindStringSubmatchIndex(text); loc != nil {
			m := re.FindStringSubmatch(text)
			return text[:loc[0]] + m[1] + sw[1] + m[2] + text[loc[1]:]
		}
	}
	return ""
}

var keyPairRe = regexp.MustCompile(`(?s)(\n\s*)(\d+)(\s*:\s*)([A-Za-z_]\w*)(\s*,\s*\n\s*)(\d+)(\s*:\s*)([A-Za-z_]\w*)`)

// prevRevisionKeys exchanges the targets of two neighbouring single integer keys.
func prevRevisionKeys(text string) string {
	for _, loc := range keyPairRe.FindAllStringSubmatchIndex(text, -1) {
		m := keyPairRe.FindStringSubmatch(text[loc[0]:loc[1]])
		if m[4] != m[8] && len(m[4]) == len(m[8]) {
			return text[:loc[0]] + m[1] + m[2] + m[3] + m[8] + m[5] + m[6] + m[7] + m[4] + text[loc[1]:]
		}
	}
	return ""
}

// filesViaCLI compiles text with the built CLI into output directories that are not empty, as
// after an earlier compile of a previous revision of the DSL, and returns what is on disk
// afterwards. What the directories hold beforehand is chosen by a hash of the text:
// a longer previous revision of every file; the output of a previous revision of the text that
// differs in one number type or in the targets of two match keys (compiled by the same CLI into
// the same directories: files of equal size and nearly equal content); files of equal size that
// differ only in their last bytes; shorter files.
func filesViaCLI(text string, langs []string, inproc map[string]map[string][]byte) (map[string]map[string][]byte, string) {
	dir := cli.Scratch("viacli")
	defer os.RemoveAll(dir)
	in := filepath.Join(dir, "in.dsl")
	h := 0
	for _, c := range []byte(text) {
		h = (h*31 + int(c)) & 0xffffff
	}
	args := []string{"compile", "-f", in}
	for _, l := range langs {
		args = append(args, cli.Flags[l], filepath.Join(dir, "out_"+l))
	}
	kind := h % 5
	staged := false
	if kind == 1 || kind == 2 {
		prev := ""
		if kind == 2 {
			prev = prevRevisionKeys(text)
		}
		if prev == "" {
			prev = prevRevision(text, h/5)
		}
		if prev != "" {
			_ = os.WriteFile(in, []byte(prev), 0o644)
			if r := cli.Run(dir, 120*time.Second, nil, nil, cli.Bin(), args...); r.Exit == 0 {
				staged = true
			} else {
				for _, l := range langs {
					os.RemoveAll(filepath.Join(dir, "out_"+l))
				}
			}
		}
	}
	if !staged {
		for _, l := range langs {
			out := filepath.Join(dir, "out_"+l)
			for name, b := range inproc[l] {
				fp := filepath.Join(out, name)
				_ = os.MkdirAll(filepath.Dir(fp), 0o755)
				stale := append([]byte{}, b...)
				switch kind {
				case 3, 1, 2:
					// same size, only the last bytes differ
					for i := len(stale) - 1; i >= 0 && i >= len(stale)-40; i-- {
						if stale[i] != '\n' {
							stale[i] = '#'
						}
					}
				case 4:
					stale = stale[:len(stale)/2]
				default:
					stale = append(stale, []byte("\nthis is the tail of a previous, longer revision of the file {{{ \n")...)
				}
				_ = os.WriteFile(fp, stale, 0o644)
			}
		}
	}
	_ = os.WriteFile(in, []byte(text), 0o644)
	r := cli.Run(dir, 120*time.Second, nil, nil, cli.Bin(), cli.Respell(args, text)...)
	if r.Exit != 0 {
		return nil, fmt.Sprintf("exit %d: %s", r.Exit, clip(string(r.Stdout)+string(r.Stderr), 200))
	}
	files := map[string]map[string][]byte{}
	for _, l := range langs {
		files[l] = cli.ReadTree(filepath.Join(dir, "out_"+l))
	}
	return files, ""
}
