package props

import (
	"fmt"
	"os"
	"testing"

	"github.com/xinchentechnote/fin-protoc/verifharness/dsl"
	"github.com/xinchentechnote/fin-protoc/verifharness/inproc"
	"github.com/xinchentechnote/fin-protoc/verifharness/pbt"
	"pgregory.net/rapid"
)

func TestExplore(t *testing.T) {
	if os.Getenv("VERIF_EXPLORE") == "" {
		t.Skip()
	}
	sigs := map[string]int{}
	first := map[string]string{}
	n := 0
	rapid.Check(t, func(rt *rapid.T) {
		p := dsl.GenProgram(rt, dsl.GenCfg{Docs: true})
		text := dsl.PlainText(p)
		n++
		if n == 1 {
			fmt.Fprintln(pbt.Out(), text)
		}
		res := inproc.Compile(text, inproc.Langs)
		key := ""
		switch {
		case res.Panic != "":
			key = "PANIC " + res.PanicSig + " :: " + res.Panic
		case res.ParseErr != "":
			key = "PARSE " + res.ParseErr[:min(80, len(res.ParseErr))]
		case len(res.Diags) > 0:
			key = "DIAG " + res.Diags[0].Msg
		default:
			key = "ok"
		}
		sigs[key]++
		if _, ok := first[key]; !ok {
			first[key] = text
		}
	})
	for k, v := range sigs {
		fmt.Fprintf(pbt.Out(), "%6d %s\n", v, k)
		if k != "ok" {
			fmt.Fprintf(pbt.Out(), "---\n%s\n---\n", first[k])
		}
	}
}
