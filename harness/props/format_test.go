package props

import (
	"encoding/json"
	"fmt"
	"os"
	"path/filepath"
	"strings"
	"testing"
	"time"

	"github.com/xinchentechnote/fin-protoc/verifharness/cli"

	"github.com/xinchentechnote/fin-protoc/verifharness/dsl"
	"github.com/xinchentechnote/fin-protoc/verifharness/inproc"
	"github.com/xinchentechnote/fin-protoc/verifharness/pbt"
	"pgregory.net/rapid"
)

// ---------- C10: idempotent and layout-canonical ----------

type c10Case struct {
	Text     string   `json:"text"`
	Relayout string   `json:"relayout"`
	Sites    []string `json:"sites,omitempty"` // grammatical position class of each comment, in order
	// FileMode: also check both laws through `format -f` on files (through the built CLI)
	FileMode bool `json:"file_mode,omitempty"`
	// StrA, StrB: two layouts of one comment-free token sequence (StrB on a single line) for the
	// same laws through `format -d`, where the text travels as a command-line argument
	StrA string `json:"str_a,omitempty"`
	StrB string `json:"str_b,omitempty"`
}

// commentScope qualifies comment-related classes: failures caused by comments at positions an
// open finding lists are a different root cause from failures at positions that work today.
func commentScope(k c10Case) string {
	avoid := pbt.AvoidTags("C10")
	for _, s := range k.Sites {
		if avoid["comment:"+s] {
			return s
		}
	}
	return "supported-positions"
}

func evalC10(k c10Case) []pbt.Violation {
	var vs []pbt.Violation
	f1, err, pmsg, psig := inproc.Format(k.Text)
	if pmsg != "" {
		// crashes are C11's business; nothing to compare
		_ = psig
		return nil
	}
	if err != nil {
		return []pbt.Violation{{Signature: "format-rejects-valid", Detail: "formatter reports a syntax error on a text built from the grammar: " + clip(err.Error(), 200)}}
	}
	f2, err2, pmsg2, _ := inproc.Format(f1)
	switch {
	case pmsg2 != "":
	case err2 != nil:
		vs = append(vs, pbt.Violation{Signature: "format-output-unparsable", Detail: "format(x) does not parse: " + clip(err2.Error(), 200)})
	case f2 != f1:
		vs = append(vs, pbt.Violation{Signature: "not-idempotent:" + scoped(diffClass(f1, f2), k), Detail: "format(format(x)) != format(x): " + firstLineDiff(f1, f2)})
	}
	if k.Relayout != "" {
		g1, gerr, gp, _ := inproc.Format(k.Relayout)
		switch {
		case gp != "":
		case gerr != nil:
			vs = append(vs, pbt.Violation{Signature: "format-rejects-valid", Detail: "formatter rejects the re-layout: " + clip(gerr.Error(), 200)})
		case g1 != f1:
			vs = append(vs, pbt.Violation{Signature: "layout-dependent:" + scoped(diffClass(f1, g1), k), Detail: "format(relayout(x)) != format(x): " + firstLineDiff(f1, g1)})
		}
	}
	if k.FileMode && len(vs) == 0 && cli.Bin() != "" {
		// the same two laws through `format -f`, which rewrites a file in place
		viaFile := func(text string, passes int) (string, bool) {
			dir := cli.Scratch("c10f")
			defer os.RemoveAll(dir)
			fp := filepath.Join(dir, "f.dsl")
			_ = os.WriteFile(fp, []byte(text), 0o644)
			for i := 0; i < passes; i++ {
				if r := cli.Run(dir, 60*time.Second, nil, nil, cli.Bin(), "format", "-f", fp); r.Exit != 0 {
					return "", false
				}
			}
			b, err := os.ReadFile(fp)
			return string(b), err == nil
		}
		once, ok1 := viaFile(k.Text, 1)
		twice, ok2 := viaFile(k.Text, 2)
		switch {
		case !ok1 || !ok2:
			vs = append(vs, pbt.Violation{External: true, Signature: "file-mode-fails-on-valid", Detail: "`format -f` exits non-zero on a text the formatter accepts"})
		case once != twice:
			vs = append(vs, pbt.Violation{External: true, Signature: "file-mode-not-idempotent", Detail: "`format -f` twice != once: " + firstLineDiff(once, twice)})
		case k.Relayout != "":
			if re, ok := viaFile(k.Relayout, 1); ok && re != once {
				vs = append(vs, pbt.Violation{External: true, Signature: "file-mode-layout-dependent", Detail: "`format -f` of the re-layout differs: " + firstLineDiff(once, re)})
			}
		}
	}
	return vs
}

func scoped(cls string, k c10Case) string {
	if strings.HasPrefix(cls, "comment-") {
		return cls + ":" + commentScope(k)
	}
	return cls
}

// diffClass gives a coarse root-cause class for two formatter outputs that should be equal.
func diffClass(a, b string) string {
	ta, _ := dsl.Lex(a)
	tb, _ := dsl.Lex(b)
	ca, cb := dsl.Comments(ta), dsl.Comments(tb)
	if len(ca) != len(cb) {
		return "comment-count"
	}
	sa, sb := dsl.Significant(ta), dsl.Significant(tb)
	if len(sa) != len(sb) {
		return "token-count"
	}
	for i := range sa {
		if sa[i].Text != sb[i].Text {
			if sa[i].Type == "DOC" && sb[i].Type == "DOC" && strings.Contains(sa[i].Text, "\n") {
				return "doc-multiline-reindented"
			}
			return "token-text"
		}
	}
	for i := range ca {
		if strings.TrimRight(ca[i], " \t") != strings.TrimRight(cb[i], " \t") {
			return "comment-text"
		}
	}
	// same tokens and comments: pure whitespace / placement difference
	la, lb := strings.Split(a, "\n"), strings.Split(b, "\n")
	for i := 0; i < len(la) && i < len(lb); i++ {
		if la[i] != lb[i] {
			if strings.Contains(la[i], "//") || strings.Contains(lb[i], "//") {
				return "comment-placement"
			}
			return "whitespace"
		}
	}
	return "whitespace"
}

func firstLineDiff(a, b string) string {
	la, lb := strings.Split(a, "\n"), strings.Split(b, "\n")
	for i := 0; i < len(la) || i < len(lb); i++ {
		var x, y string
		if i < len(la) {
			x = la[i]
		}
		if i < len(lb) {
			y = lb[i]
		}
		if x != y {
			return fmt.Sprintf("line %d: %q vs %q", i+1, clip(x, 120), clip(y, 120))
		}
	}
	return "(no line differs)"
}

func synAvoidFor(c *pbt.Collector) map[string]bool {
	// crashes on some constructs belong to C11; while they are open there, the formatter
	// properties generate around them (tags of C11 findings), plus this property's own tags
	return pbt.AvoidTags(c.ID, "C11")
}

func TestC10(t *testing.T) {
	c := pbt.New("C10", "exploration",
		"texts are drawn from the grammar (every alternative/optional; semantic validity not required) or are random spellings of well-formed programs, with // comments and random whitespace; each is paired with a re-layout (same tokens, same comment attachment, different blanks/line breaks); one case in sixteen repeats both laws through `format -f` on files. Non-trivial = the text contains a comment, a key list of more than 5 keys, or a nested inline object; distinct = hash of (text, relayout).",
		"the harness tokenizer/renderer follow PacketDsl.g4's lexer rules", "formatter crashes are reported under C11, not here")
	if p := pbt.ReplayPath(); p != "" {
		c.Direct(t, func() {
			raw, err := pbt.LoadReplay(p)
			if err != nil {
				t.Fatal(err)
			}
			var k c10Case
			_ = json.Unmarshal(raw, &k)
			replayHistory(p, evalC10)
			c.Eval()
			c.Report(pbt.DirectTB(t), k, append(evalC10(k), evalC10Str(k)...))
		})
		return
	}
	avoid := synAvoidFor(c)
	c.SetRecheck(func(k any) []pbt.Violation { return append(evalC10(k.(c10Case)), evalC10Str(k.(c10Case))...) })
	c.SetPure()
	c.ReplayKnown(t, func(raw json.RawMessage) []pbt.Violation {
		var k c10Case
		_ = json.Unmarshal(raw, &k)
		return evalC10(k)
	})
	c.Check(t, func(rt *rapid.T) {
		mode := dsl.AnywhereComments
		tc := genText(rt, c, mode, rapid.Bool().Draw(rt, "wild"), avoid)
		// the re-layout keeps tokens and comment attachment and redraws every gap
		relay, _ := dsl.Layout(tc.Toks, dsl.RandLayout{T: rt, Label: "relay", Wild: true})
		k := c10Case{Text: tc.Text, Relayout: relay, Sites: tc.Sites}
		if rapid.IntRange(0, 15).Draw(rt, "file_mode") == 0 && !strings.Contains(tc.Text, "\x00") {
			k.FileMode = true
			c.Class("file-mode-through-cli")
		}
		if rapid.IntRange(0, 11).Draw(rt, "string_mode") == 0 && !strings.Contains(tc.Text, "\x00") && len(tc.Toks) > 0 {
			// the same tokens without comments, once laid out freely and once on a single line,
			// with backslash sequences in a doc string, as `format -d` arguments
			toks := make([]dsl.Tok, len(tc.Toks))
			copy(toks, tc.Toks)
			ok := true
			for i := range toks {
				toks[i].Pre, toks[i].Trail, toks[i].HasTr = nil, "", false
				if strings.Contains(toks[i].Text, "\n") {
					ok = false
				}
				if strings.HasPrefix(toks[i].Text, "`") && len(toks[i].Text) >= 2 {
					toks[i].Text = toks[i].Text[:len(toks[i].Text)-1] + rapid.SampledFrom([]string{"", ` D:\new\table`, ` \n`, ` a\tb`}).Draw(rt, fmt.Sprintf("bs%d", i)) + "`"
				}
			}
			if ok && !strings.HasPrefix(toks[0].Text, "-") {
				k.StrA, _ = dsl.Layout(toks, dsl.RandLayout{T: rt, Label: "strlay"})
				k.StrB, _ = dsl.Layout(toks, oneLine{})
				if strings.TrimSpace(k.StrA) != "" {
					c.Class("string-mode-through-cli")
				} else {
					k.StrA, k.StrB = "", ""
				}
			}
		}
		c.Eval()
		c.Class("origin:" + tc.Origin)
		nontrivial := tc.NComments > 0 || hasLongList(tc.Toks) || nestedInline(tc.Toks)
		if tc.NComments > 0 {
			c.Class("with-comments")
		}
		if hasMultilineDoc(tc.Toks) {
			c.Class("multi-line-doc")
		}
		if hasLongList(tc.Toks) {
			c.Class("long-key-list")
		}
		if nestedInline(tc.Toks) {
			c.Class("nested-inline")
		}
		if nontrivial {
			c.NonTrivial(pbt.Hash(k.Text, k.Relayout), func() any { return map[string]any{"text": clip(k.Text, 600), "relayout": clip(k.Relayout, 600)} })
		}
		c.Report(rt, k, append(evalC10(k), evalC10Str(k)...))
	})
}

func hasMultilineDoc(toks []dsl.Tok) bool {
	for _, tk := range toks {
		if strings.HasPrefix(tk.Text, "`") && strings.Contains(tk.Text, "\n") {
			return true
		}
	}
	return false
}

func hasLongList(toks []dsl.Tok) bool {
	n, in := 0, false
	for _, t := range toks {
		switch {
		case t.Text == "[":
			in, n = true, 0
		case t.Text == "]":
			if n > 5 {
				return true
			}
			in = false
		case in && t.Text != ",":
			n++
		}
	}
	return false
}

func nestedInline(toks []dsl.Tok) bool {
	depth := 0
	for _, t := range toks {
		switch t.Text {
		case "{":
			depth++
			if depth >= 3 {
				return true
			}
		case "}":
			depth--
		}
	}
	return false
}

// ---------- C09: formatting changes layout only ----------

type c09Case struct {
	// FileMode: also run `format -f` on a file holding the text (through the built CLI)
	FileMode bool     `json:"file_mode,omitempty"`
	// StrMode: also run `format -d <text>` (through the built CLI); stdout must be the same text
	StrMode bool     `json:"str_mode,omitempty"`
	Text    string   `json:"text"`
	Sites   []string `json:"sites,omitempty"`   // grammatical position class of each comment, in order
	Invalid string   `json:"invalid,omitempty"` // mutation class when the text is invalid by construction
}

// normTokens drops the purely optional separators: ';' and the ',' after a match pair.
func normTokens(ts []dsl.LexTok) []dsl.LexTok {
	var o []dsl.LexTok
	for i, t := range ts {
		if t.Text == ";" {
			continue
		}
		if t.Text == "," && i >= 2 && ts[i-1].Type == "IDENT" && ts[i-2].Text == ":" {
			continue
		}
		o = append(o, t)
	}
	return o
}

func evalC09(k c09Case) []pbt.Violation {
	out, err, pmsg, _ := inproc.Format(k.Text)
	if pmsg != "" {
		return nil // C11
	}
	if k.FileMode && cli.Bin() != "" {
		dir := cli.Scratch("c09f")
		fp := filepath.Join(dir, "f.dsl")
		_ = os.WriteFile(fp, []byte(k.Text), 0o644)
		r := cli.Run(dir, 60*time.Second, nil, nil, cli.Bin(), "format", "-f", fp)
		after, _ := os.ReadFile(fp)
		os.RemoveAll(dir)
		switch {
		case err == nil && (r.Exit != 0 || string(after) != out):
			return []pbt.Violation{{External: true, Signature: "file-mode-differs", Detail: fmt.Sprintf("`format -f` (exit %d) left %q in the file; formatting the same text gives %q", r.Exit, clip(string(after), 200), clip(out, 200))}}
		case err != nil && string(after) != k.Text:
			return []pbt.Violation{{External: true, Signature: "file-mode-touches-file-on-error", Detail: "the file was changed although the text has a syntax error"}}
		case err != nil && r.Exit == 0:
			return []pbt.Violation{{External: true, Signature: "file-mode-exit0-on-error", Detail: "exit status 0 on a syntax error"}}
		}
	}
	if k.StrMode && cli.Bin() != "" && err == nil {
		dir := cli.Scratch("c09d")
		r := cli.Run(dir, 60*time.Second, nil, nil, cli.Bin(), "format", "-d", k.Text)
		os.RemoveAll(dir)
		if so := string(r.Stdout); r.Exit != 0 || (so != out && so != out+"\n") {
			return []pbt.Violation{{External: true, Signature: "string-mode-differs", Detail: fmt.Sprintf("`format -d` (exit %d) printed %q; formatting the same text gives %q", r.Exit, clip(so, 200), clip(out, 200))}}
		}
	}
	if k.Invalid != "" {
		var vs []pbt.Violation
		if err == nil {
			vs = append(vs, pbt.Violation{Signature: "invalid-accepted:" + k.Invalid, Detail: fmt.Sprintf("a text that is not derivable from the grammar (%s) is formatted without error; result %q", k.Invalid, clip(out, 200))})
		} else if out != k.Text {
			vs = append(vs, pbt.Violation{Signature: "error-changes-text", Detail: "on a syntax error the returned text differs from the input"})
		}
		return vs
	}
	if err != nil {
		if out != k.Text {
			return []pbt.Violation{{Signature: "error-changes-text", Detail: "on a syntax error the returned text differs from the input"}}
		}
		return []pbt.Violation{{Signature: "format-rejects-valid", Detail: "formatter reports a syntax error on a text built from the grammar: " + clip(err.Error(), 200)}}
	}
	var vs []pbt.Violation
	xt, lerr := dsl.Lex(k.Text)
	if lerr != nil {
		return []pbt.Violation{{Signature: "harness-lexer", Detail: lerr.Error()}}
	}
	ft, ferr := dsl.Lex(out)
	if ferr != nil {
		return []pbt.Violation{{Signature: "format-output-unlexable", Detail: ferr.Error()}}
	}
	// (1) re-parse
	if _, err2, p2, _ := inproc.Format(out); p2 == "" && err2 != nil {
		vs = append(vs, pbt.Violation{Signature: "format-output-unparsable", Detail: clip(err2.Error(), 200)})
	}
	// (2) token sequence
	xs, fs := normTokens(dsl.Significant(xt)), normTokens(dsl.Significant(ft))
	if v := tokenDiff(xs, fs); v != nil {
		vs = append(vs, *v)
	}
	// (3) comment sequence
	xc, fc := dsl.Comments(xt), dsl.Comments(ft)
	if v := commentDiff(k, xt, xc, fc); v != nil {
		vs = append(vs, *v)
	}
	// (4) compiled outputs
	rx := inproc.Compile(k.Text, inproc.Langs)
	if rx.Panic == "" {
		rf := inproc.Compile(out, inproc.Langs)
		switch {
		case rf.Panic != "":
			vs = append(vs, pbt.Violation{Signature: "compile-differs:panic", Detail: "compiling format(x) panics while compiling x does not: " + rf.Panic})
		case (rx.ParseErr == "") != (rf.ParseErr == ""):
			vs = append(vs, pbt.Violation{Signature: "compile-differs:parse", Detail: fmt.Sprintf("parse outcome differs: %q vs %q", clip(rx.ParseErr, 100), clip(rf.ParseErr, 100))})
		case diagMsgs(rx) != diagMsgs(rf):
			vs = append(vs, pbt.Violation{Signature: "compile-differs:diagnostics", Detail: fmt.Sprintf("diagnostics differ: %q vs %q", clip(diagMsgs(rx), 200), clip(diagMsgs(rf), 200))})
		default:
			for _, l := range inproc.Langs {
				if d := inproc.FilesEqual(rx.Files[l], rf.Files[l]); d != "" {
					vs = append(vs, pbt.Violation{Signature: "compile-differs:" + l, Detail: d})
					break
				}
			}
		}
	}
	return vs
}

func diagMsgs(r *inproc.Result) string {
	var s []string
	for _, d := range r.Diags {
		s = append(s, d.Msg)
	}
	return strings.Join(s, "|")
}

func tokenDiff(xs, fs []dsl.LexTok) *pbt.Violation {
	i := 0
	for i < len(xs) && i < len(fs) && xs[i].Text == fs[i].Text {
		i++
	}
	if i == len(xs) && i == len(fs) {
		return nil
	}
	ctx := func(ts []dsl.LexTok, i int) string {
		lo, hi := max(0, i-3), min(len(ts), i+3)
		var s []string
		for _, t := range ts[lo:hi] {
			s = append(s, t.Text)
		}
		return strings.Join(s, " ")
	}
	sig := "tokens-changed"
	switch {
	case i < len(xs) && i < len(fs) && xs[i].Type == "DOC" && fs[i].Type == "DOC" && strings.Contains(xs[i].Text, "\n"):
		sig = "doc-multiline-reindented"
	case i < len(xs) && xs[i].Type == "DOC" && (i >= len(fs) || fs[i].Type != "DOC"):
		prev := ""
		for j := max(0, i-2); j < i; j++ {
			prev += xs[j].Type + "."
		}
		sig = "doc-dropped:after." + prev
	case i < len(xs) && i < len(fs) && (xs[i].Type == "DIGITS" || xs[i].Type == "STRING") && (fs[i].Type == "DIGITS" || fs[i].Type == "STRING") && inList(xs, i):
		sig = "key-list-reordered"
	case i < len(xs) && i < len(fs):
		sig = "tokens-changed:" + xs[i].Type + "->" + fs[i].Type
	case i >= len(fs):
		sig = "tokens-dropped-at-end"
	}
	return &pbt.Violation{Signature: sig, Detail: fmt.Sprintf("token %d differs: input has [%s], output has [%s]", i, ctx(xs, i), ctx(fs, i))}
}

func inList(ts []dsl.LexTok, i int) bool {
	for j := i; j >= 0; j-- {
		if ts[j].Text == "[" {
			return true
		}
		if ts[j].Text == "]" || ts[j].Text == "{" || ts[j].Text == "}" {
			return false
		}
	}
	return false
}

// commentDiff requires the input's comments to appear in the output in the same order (text
// compared modulo trailing blanks). The class of the first lost comment is derived from the
// token it is attached to.
func commentDiff(k c09Case, xt []dsl.LexTok, xc, fc []string) *pbt.Violation {
	norm := func(s string) string { return strings.TrimRight(s, " \t") }
	i := 0
	for i < len(xc) && i < len(fc) && norm(xc[i]) == norm(fc[i]) {
		i++
	}
	if i == len(xc) && i == len(fc) {
		return nil
	}
	if i < len(xc) {
		// classify comment i by its neighbours in the input
		cls := commentPosClass(xt, i)
		if i < len(k.Sites) && len(k.Sites) == len(xc) {
			cls = k.Sites[i]
		}
		what := "dropped"
		for _, f := range fc {
			if norm(f) == norm(xc[i]) {
				what = "moved-or-dropped"
			}
		}
		return &pbt.Violation{Signature: "comment-dropped:" + cls, Detail: fmt.Sprintf("comment #%d %q is %s (input has %d comments, output %d)", i, xc[i], what, len(xc), len(fc))}
	}
	return &pbt.Violation{Signature: "comment-invented", Detail: fmt.Sprintf("output has %d comments, input %d", len(fc), len(xc))}
}

// commentPosClass: "own-line" or "trailing" + the kind of the significant tokens around it.
func commentPosClass(ts []dsl.LexTok, ci int) string {
	n := -1
	for idx, t := range ts {
		if t.Type != "COMMENT" {
			continue
		}
		n++
		if n != ci {
			continue
		}
		prev, next := "BOF", "EOF"
		trailing := false
		for j := idx - 1; j >= 0; j-- {
			if ts[j].Type != "COMMENT" {
				prev = tokClass(ts[j])
				trailing = ts[j].Line+strings.Count(ts[j].Text, "\n") == t.Line
				break
			}
		}
		for j := idx + 1; j < len(ts); j++ {
			if ts[j].Type != "COMMENT" {
				next = tokClass(ts[j])
				break
			}
		}
		_, _ = prev, next
		if trailing {
			return "trailing"
		}
		return "own-line"
	}
	return "?"
}

func tokClass(t dsl.LexTok) string {
	switch t.Type {
	case "PUNCT", "KW":
		if len(t.Text) > 12 {
			return t.Text[:12]
		}
		return t.Text
	}
	return t.Type
}

// invalidate turns a valid token list into a text that no derivation of the grammar yields.
func invalidate(rt *rapid.T, toks []dsl.Tok, text string) (string, string) {
	classes := []string{"trailing-garbage", "unterminated-doc", "unterminated-string", "stray-at"}
	var closers, fieldEnds, opens []int
	for i, t := range toks {
		if t.Text == "}" && i == len(toks)-1 {
			closers = append(closers, i)
		}
		if t.Text == "," && (i+1 < len(toks)) && (i > 0) {
			// a comma that ends a field: previous token is not inside [ ]
			fieldEnds = append(fieldEnds, i)
		}
		if t.Text == "{" && i >= 2 && toks[i-2].Text == "packet" {
			opens = append(opens, i)
		}
	}
	if len(closers) > 0 {
		classes = append(classes, "drop-last-brace")
	}
	if len(opens) > 0 {
		classes = append(classes, "drop-packet-open-brace", "equals-after-packet")
	}
	cls := rapid.SampledFrom(classes).Draw(rt, "invalid_class")
	cut := func(idx int) string {
		var nt []dsl.Tok
		nt = append(nt, toks[:idx]...)
		nt = append(nt, toks[idx+1:]...)
		s, _ := dsl.Layout(nt, dsl.PlainLayout{})
		return s
	}
	switch cls {
	case "trailing-garbage":
		g := rapid.SampledFrom([]string{"}", "=", ",", ")", "packet", "u8 x,", "{"}).Draw(rt, "garbage")
		if text == "" && g == "packet" {
			g = "}"
		}
		return text + "\n" + g, cls
	case "unterminated-doc":
		return text + "\n`never closed", cls
	case "unterminated-string":
		return text + "\noptions { GoPackage = \"abc }", cls
	case "stray-at":
		return text + "\n@", cls
	case "drop-last-brace":
		return cut(closers[0]), cls
	case "drop-packet-open-brace":
		return cut(opens[rapid.IntRange(0, len(opens)-1).Draw(rt, "open_idx")]), cls
	case "equals-after-packet":
		idx := opens[rapid.IntRange(0, len(opens)-1).Draw(rt, "open_idx")]
		var nt []dsl.Tok
		nt = append(nt, toks[:idx-1]...)
		nt = append(nt, dsl.Tok{Text: "="})
		nt = append(nt, toks[idx-1:]...)
		s, _ := dsl.Layout(nt, dsl.PlainLayout{})
		return s, cls
	}
	return text + "\n}", "trailing-garbage"
}

func TestC09(t *testing.T) {
	c := pbt.New("C09", "exploration",
		"valid texts: grammar-derived (every alternative/optional element) or random spellings of well-formed programs, with // comments at every token boundary and random whitespace; oracle: format succeeds, re-parses, same token sequence modulo optional ';' and pair ',' (harness tokenizer), same comment sequence, same compiled outputs/diagnostics; a twelfth of the cases each also through `format -f` (file == result) and `format -d` (stdout == result) of the built CLI. Invalid texts: valid ones broken by construction (trailing garbage, dropped brace, unterminated literal, stray token); oracle: error returned and text unchanged. Non-trivial = at least 2 declarations and at least one comment, doc string or attribute (valid), or any invalid text; distinct = hash of text.",
		"the harness tokenizer follows PacketDsl.g4's lexer rules", "formatter crashes are reported under C11")
	run := func(tb pbt.TB, k c09Case) { c.Eval(); c.Report(tb, k, evalC09(k)) }
	if p := pbt.ReplayPath(); p != "" {
		c.Direct(t, func() {
			raw, err := pbt.LoadReplay(p)
			if err != nil {
				t.Fatal(err)
			}
			var k c09Case
			_ = json.Unmarshal(raw, &k)
			replayHistory(p, evalC09)
			run(pbt.DirectTB(t), k)
		})
		return
	}
	avoid := synAvoidFor(c)
	c.SetRecheck(func(k any) []pbt.Violation { return evalC09(k.(c09Case)) })
	c.SetPure()
	c.ReplayKnown(t, func(raw json.RawMessage) []pbt.Violation {
		var k c09Case
		_ = json.Unmarshal(raw, &k)
		return evalC09(k)
	})
	c.Check(t, func(rt *rapid.T) {
		mode := dsl.AnywhereComments
		tc := genText(rt, c, mode, rapid.Bool().Draw(rt, "wild"), avoid)
		k := c09Case{Text: tc.Text, Sites: tc.Sites}
		if rapid.IntRange(0, 11).Draw(rt, "file_mode") == 0 && !strings.Contains(tc.Text, "\x00") {
			k.FileMode = true
			c.Class("file-mode-through-cli")
		}
		if rapid.IntRange(0, 11).Draw(rt, "str_mode") == 0 && !strings.Contains(tc.Text, "\x00") && strings.TrimSpace(tc.Text) != "" && !strings.HasPrefix(tc.Text, "-") {
			k.StrMode = true
			c.Class("string-mode-through-cli")
		}
		if rapid.IntRange(0, 4).Draw(rt, "make_invalid") == 0 {
			k.Text, k.Invalid = invalidate(rt, tc.Toks, tc.Text)
			k.Sites = nil
			c.Class("invalid:" + k.Invalid)
			c.NonTrivial(pbt.Hash(k.Text), func() any { return map[string]any{"invalid": k.Invalid, "text": clip(k.Text, 500)} })
			run(rt, k)
			return
		}
		c.Class("valid:" + tc.Origin)
		ndecl, nattr := 0, 0
		for _, tk := range tc.Toks {
			if strings.HasSuffix(tk.Site, "-start") {
				ndecl++
			}
			if strings.HasPrefix(tk.Text, "@") || strings.HasPrefix(tk.Text, "`") {
				nattr++
			}
		}
		if ndecl >= 2 && (tc.NComments > 0 || nattr > 0) {
			c.NonTrivial(pbt.Hash(k.Text), func() any { return map[string]any{"text": clip(k.Text, 600), "comments": tc.NComments} })
		}
		if tc.NComments > 0 {
			c.Class("with-comments")
		}
		if hasMultilineDoc(tc.Toks) {
			c.Class("multi-line-doc")
		}
		run(rt, k)
	})
}

// oneLine puts every token on one line.
type oneLine struct{}

func (oneLine) Gap(i int, t dsl.Tok, must bool) string {
	if i == 0 {
		return ""
	}
	return " "
}

// evalC10Str: both laws through `format -d`.
func evalC10Str(k c10Case) []pbt.Violation {
	if k.StrA == "" || cli.Bin() == "" {
		return nil
	}
	if _, err, pm, _ := inproc.Format(k.StrA); err != nil || pm != "" {
		return nil
	}
	viaArg := func(text string) (string, bool) {
		dir := cli.Scratch("c10d")
		defer os.RemoveAll(dir)
		r := cli.Run(dir, 60*time.Second, nil, nil, cli.Bin(), "format", "-d", text)
		return strings.TrimSuffix(string(r.Stdout), "\n"), r.Exit == 0
	}
	a, okA := viaArg(k.StrA)
	b, okB := viaArg(k.StrB)
	switch {
	case !okA || !okB:
		return []pbt.Violation{{External: true, Signature: "string-mode-fails-on-valid", Detail: fmt.Sprintf("`format -d` exits non-zero on a text the formatter accepts (several lines: ok=%v, one line: ok=%v): %q", okA, okB, clip(k.StrB, 200))}}
	case a != b:
		return []pbt.Violation{{External: true, Signature: "string-mode-layout-dependent", Detail: "`format -d` of the same tokens on one line differs: " + firstLineDiff(a, b)}}
	}
	if strings.TrimSpace(a) != "" {
		if aa, ok := viaArg(a); !ok || aa != a {
			return []pbt.Violation{{External: true, Signature: "string-mode-not-idempotent", Detail: "`format -d` twice != once: " + firstLineDiff(a, aa)}}
		}
	}
	return nil
}
