package props

import (
	"encoding/json"
	"fmt"
	"os"
	"path/filepath"
	"sort"
	"strings"
	"testing"
	"time"

	"github.com/xinchentechnote/fin-protoc/verifharness/cli"
	"github.com/xinchentechnote/fin-protoc/verifharness/dsl"
	"github.com/xinchentechnote/fin-protoc/verifharness/inproc"
	"github.com/xinchentechnote/fin-protoc/verifharness/pbt"
	"pgregory.net/rapid"
)

type c16Case struct {
	Mode string `json:"mode"` // "format" | "compile"
	Text string `json:"text"`
	// Others: further texts; the C library is loaded once and called on Text, Others..., Text again
	Others []string `json:"others,omitempty"`
	// OutNames: output directory names for compile mode (parallel to Subset); "" = out/<lang>
	OutNames []string `json:"out_names,omitempty"`
	Subset   []string `json:"subset,omitempty"`
	Strace   bool     `json:"strace,omitempty"`
	// Stale: the output directories already hold (longer) files of the same names from an earlier run
	Stale bool `json:"stale,omitempty"`
	// ArgStyles: spelling of each flag (cli.FlagArgs); [0] is the input flag (-f / -d), the
	// others are parallel to Subset. Missing entries mean the short form.
	ArgStyles []int `json:"arg_styles,omitempty"`
	// FileLast: the input flag comes after the output flags
	FileLast bool `json:"file_last,omitempty"`
	// AbsOut: output directories are given as absolute paths
	AbsOut bool `json:"abs_out,omitempty"`
	// InName: name of the input file inside the working directory ("" = absolute path of in.dsl)
	InName string `json:"in_name,omitempty"`
}

func (k c16Case) style(i int) int {
	if i < len(k.ArgStyles) {
		return k.ArgStyles[i]
	}
	return 0
}

// compileArgs builds the command line of one compile run in dir; od maps language -> directory
// as written on the command line.
func (k c16Case) compileArgs(dir string, word bool, od map[string]string) []string {
	in := filepath.Join(dir, "in.dsl")
	inArg := in
	if k.InName != "" {
		in = filepath.Join(dir, k.InName)
		inArg = k.InName
	}
	_ = os.MkdirAll(filepath.Dir(in), 0o755)
	_ = os.WriteFile(in, []byte(k.Text), 0o644)
	var args []string
	if word {
		args = append(args, "compile")
	}
	if !k.FileLast {
		args = append(args, cli.FlagArgs("file", k.style(0), inArg)...)
	}
	for i, l := range k.Subset {
		d := od[l]
		if k.AbsOut {
			d = filepath.Join(dir, d)
		}
		args = append(args, cli.FlagArgs(l, k.style(i+1), d)...)
	}
	if k.FileLast {
		args = append(args, cli.FlagArgs("file", k.style(0), inArg)...)
	}
	return args
}

func evalC16(k c16Case) []pbt.Violation {
	if k.Mode == "compile" {
		return evalC16Compile(k)
	}
	var vs []pbt.Violation
	want, werr, pmsg, _ := inproc.Format(k.Text)
	if pmsg != "" {
		return nil // C11
	}
	dir := cli.Scratch("c16")
	defer os.RemoveAll(dir)
	// --- format -d
	r := cli.Run(dir, 60*time.Second, nil, nil, cli.Bin(), append([]string{"format"}, cli.FlagArgs("dsl", k.style(0), k.Text)...)...)
	so := string(r.Stdout)
	if werr == nil {
		if r.Exit != 0 {
			vs = append(vs, pbt.Violation{Signature: "format-d:fails-on-valid", Detail: fmt.Sprintf("exit %d on a text the library formats: %s", r.Exit, clip(so+string(r.Stderr), 200))})
		} else if so != want && so != want+"\n" {
			vs = append(vs, pbt.Violation{Signature: "format-d:stdout-differs:" + stdoutDiffClass(so, want), Detail: fmt.Sprintf("stdout is not exactly the formatter's result: got %q want %q", clip(so, 160), clip(want, 160))})
		}
	} else if r.Exit == 0 {
		vs = append(vs, pbt.Violation{Signature: "format-d:exit0-on-syntax-error", Detail: "exit status 0 although the library reports a syntax error"})
	}
	// --- format -f
	fp := filepath.Join(dir, "f.dsl")
	_ = os.WriteFile(fp, []byte(k.Text), 0o644)
	fpArg := fp
	if k.InName != "" {
		fp = filepath.Join(dir, k.InName)
		fpArg = k.InName
		_ = os.MkdirAll(filepath.Dir(fp), 0o755)
		_ = os.WriteFile(fp, []byte(k.Text), 0o644)
	}
	r = cli.Run(dir, 60*time.Second, nil, nil, cli.Bin(), append([]string{"format"}, cli.FlagArgs("file", k.style(1), fpArg)...)...)
	after, _ := os.ReadFile(fp)
	if werr == nil {
		if r.Exit != 0 {
			vs = append(vs, pbt.Violation{Signature: "format-f:fails-on-valid", Detail: fmt.Sprintf("exit %d: %s", r.Exit, clip(string(r.Stdout), 200))})
		} else if string(after) != want {
			vs = append(vs, pbt.Violation{Signature: "format-f:file-differs", Detail: fmt.Sprintf("file holds %q, library result is %q", clip(string(after), 160), clip(want, 160))})
		}
	} else {
		if r.Exit == 0 {
			vs = append(vs, pbt.Violation{Signature: "format-f:exit0-on-syntax-error", Detail: "exit status 0 although the library reports a syntax error"})
		}
		if string(after) != k.Text {
			vs = append(vs, pbt.Violation{Signature: "format-f:file-touched-on-error", Detail: "the file was modified although formatting failed"})
		}
	}
	// --- C library
	if drv, lib := os.Getenv("VERIF_LIBDRIVER"), os.Getenv("VERIF_LIB"); drv != "" && lib != "" {
		// one loaded library, several calls: Text, Others..., each Other twice, Text again
		seq := []string{k.Text}
		for _, o := range k.Others {
			seq = append(seq, o, o)
		}
		seq = append(seq, k.Text)
		args := []string{lib}
		for i, t := range seq {
			in := filepath.Join(dir, fmt.Sprintf("lib%d.dsl", i))
			_ = os.WriteFile(in, []byte(t), 0o644)
			args = append(args, in)
		}
		r = cli.Run(dir, 60*time.Second, nil, nil, drv, args...)
		gots, okp := cli.ParseLibOutput(r.Stdout)
		if r.Exit != 0 || !okp || len(gots) != len(seq) {
			vs = append(vs, pbt.Violation{Signature: "clib:call-failed", Detail: fmt.Sprintf("host process exit %d signal %q, %d of %d results: %s", r.Exit, r.Signal, len(gots), len(seq), clip(string(r.Stderr), 200))})
		} else {
			for i, t := range seq {
				w, e, pm, _ := inproc.Format(t)
				if pm != "" {
					continue
				}
				got := gots[i]
				switch {
				case e == nil && got != w:
					vs = append(vs, pbt.Violation{Signature: "clib:result-differs", Detail: fmt.Sprintf("call %d of %d in one process: C function returned %q, library result is %q", i+1, len(seq), clip(got, 160), clip(w, 160))})
				case e != nil && !strings.HasPrefix(got, "Error:"):
					vs = append(vs, pbt.Violation{Signature: "clib:no-error-prefix", Detail: fmt.Sprintf("call %d of %d in one process: on a syntax error the C function returned %q", i+1, len(seq), clip(got, 160))})
				}
			}
		}
	}
	return vs
}

func stdoutDiffClass(got, want string) string {
	if strings.HasSuffix(got, want+"\n") || strings.HasSuffix(got, want) {
		return "extra-leading-output"
	}
	if strings.HasPrefix(got, want) {
		return "extra-trailing-output"
	}
	return "content"
}

func evalC16Compile(k c16Case) []pbt.Violation {
	var vs []pbt.Violation
	ref := inproc.Compile(k.Text, k.Subset)
	if ref.ParseErr == "" && ref.Panic == "" && len(ref.Diags) == 0 && len(ref.GenErr) > 0 {
		// a requested generator refuses the model (no root packet): the command must not report
		// success, with or without the subcommand word
		for _, word := range []bool{true, false} {
			dir := cli.Scratch("c16r")
			od := map[string]string{}
			for _, l := range k.Subset {
				od[l] = filepath.Join("out", l)
			}
			args := k.compileArgs(dir, word, od)
			r := cli.Run(dir, 120*time.Second, nil, nil, cli.Bin(), args...)
			os.RemoveAll(dir)
			if r.Exit == 0 && !r.TimedOut {
				return []pbt.Violation{{Signature: "compile:cli-succeeds-where-library-fails", Detail: fmt.Sprintf("word=%v exit 0 although generators fail in the library: %v", word, ref.GenErr)}}
			}
		}
		return nil
	}
	if !ref.OK() {
		return nil
	}
	var trees [2]map[string]map[string][]byte
	for i, word := range []bool{true, false} {
		dir := cli.Scratch("c16c")
		defer os.RemoveAll(dir)
		outDir := map[string]string{}
		for i, l := range k.Subset {
			outDir[l] = filepath.Join("out", l)
			if i < len(k.OutNames) && k.OutNames[i] != "" {
				outDir[l] = k.OutNames[i]
			}
		}
		// relative names (unless AbsOut): the tool runs with the scratch directory as working directory
		args := k.compileArgs(dir, word, outDir)
		if k.Stale {
			for _, l := range k.Subset {
				for fname, content := range ref.Files[l] {
					fp := filepath.Join(dir, outDir[l], fname)
					_ = os.MkdirAll(filepath.Dir(fp), 0o755)
					_ = os.WriteFile(fp, append(append([]byte{}, content...), []byte("\n// stale tail of a previous, longer output\n// more\n")...), 0o644)
				}
			}
		}
		name, argv := cli.Bin(), args
		var traceFile string
		if k.Strace && i == 0 {
			traceFile = filepath.Join(dir, "trace.txt")
			argv = append([]string{"-f", "-e", "trace=openat,open,creat,mkdir,mkdirat,rename,renameat,unlink,unlinkat", "-o", traceFile, name}, args...)
			name = "strace"
		}
		r := cli.Run(dir, 120*time.Second, nil, nil, name, argv...)
		if r.Exit != 0 {
			return []pbt.Violation{{Signature: "compile:cli-fails-where-library-succeeds", Detail: fmt.Sprintf("word=%v exit %d: %s", word, r.Exit, clip(string(r.Stdout)+string(r.Stderr), 300))}}
		}
		// several flags may name one directory: it must then hold the union of those targets' files
		trees[i] = map[string]map[string][]byte{}
		byDir := map[string][]string{}
		var dirs []string
		for _, l := range k.Subset {
			if len(byDir[outDir[l]]) == 0 {
				dirs = append(dirs, outDir[l])
			}
			byDir[outDir[l]] = append(byDir[outDir[l]], l)
		}
		for _, od := range dirs {
			want := map[string][]byte{}
			for _, l := range byDir[od] {
				for n, b := range ref.Files[l] {
					want[n] = b
				}
			}
			label := byDir[od][0]
			if len(byDir[od]) > 1 {
				label = "shared-directory"
			}
			trees[i][od] = cli.ReadTree(filepath.Join(dir, od))
			if d := inproc.FilesEqual(want, trees[i][od]); d != "" {
				vs = append(vs, pbt.Violation{Signature: "compile:tree-differs-from-generators:" + label, Detail: fmt.Sprintf("word=%v, %v -> %s: %s", word, byDir[od], od, d)})
			}
		}
		// nothing else: only in.dsl, out/<requested>, and the trace file
		allowed := map[string]bool{"in.dsl": true, "trace.txt": true}
		if k.InName != "" {
			allowed = map[string]bool{filepath.Clean(k.InName): true, "trace.txt": true}
		}
		for _, l := range k.Subset {
			for name := range ref.Files[l] {
				allowed[filepath.Join(outDir[l], name)] = true
			}
		}
		for name := range cli.ReadTree(dir) {
			if !allowed[name] {
				vs = append(vs, pbt.Violation{Signature: "compile:writes-elsewhere", Detail: "unexpected file " + name + " in the working directory"})
			}
		}
		if traceFile != "" {
			if b, err := os.ReadFile(traceFile); err == nil {
				for _, line := range strings.Split(string(b), "\n") {
					if !(strings.Contains(line, "O_WRONLY") || strings.Contains(line, "O_RDWR") || strings.Contains(line, "O_CREAT") || strings.Contains(line, "mkdir") || strings.Contains(line, "rename") || strings.Contains(line, "unlink") || strings.Contains(line, "creat(")) {
						continue
					}
					if strings.Contains(line, "ENOENT") || strings.Contains(line, "= -1") {
						continue
					}
					q := strings.Index(line, "\"")
					if q < 0 {
						continue
					}
					path := line[q+1:]
					if e := strings.Index(path, "\""); e >= 0 {
						path = path[:e]
					}
					inOut := false
					for _, od := range outDir {
						if strings.HasPrefix(path, filepath.Join(dir, od)) || strings.HasPrefix(path, od) {
							inOut = true
						}
						// creating a requested directory creates its missing parents first
						if strings.Contains(line, "mkdir") && (strings.HasPrefix(filepath.Clean(od)+"/", filepath.Clean(path)+"/") || strings.HasPrefix(filepath.Join(dir, od)+"/", filepath.Clean(path)+"/")) {
							inOut = true
						}
					}
					if inOut || strings.HasPrefix(path, "/dev/") || strings.HasPrefix(path, "/proc/") || path == traceFile {
						continue
					}
					vs = append(vs, pbt.Violation{Signature: "compile:writes-elsewhere", Detail: "write-type system call outside the requested directories: " + clip(line, 200)})
				}
			}
		}
	}
	var ods []string
	for od := range trees[0] {
		ods = append(ods, od)
	}
	sort.Strings(ods)
	for _, od := range ods {
		if d := inproc.FilesEqual(trees[0][od], trees[1][od]); d != "" {
			vs = append(vs, pbt.Violation{Signature: "compile:spellings-differ", Detail: "`fin-protoc compile ...` and `fin-protoc ...` wrote different trees under " + od + ": " + d})
		}
	}
	return vs
}

func TestC16(t *testing.T) {
	c := pbt.New("C16", "exploration",
		"formatter: valid texts (grammar-derived and program renderings with comments/whitespace) and invalid ones (mutants, truncations), NUL-free and non-empty (argv and C strings cannot carry the others), through `format -d`, `format -f` and the exported C function; oracle = the in-process library result: stdout == result (one trailing newline tolerated), file == result, C string == result; on a syntax error: exit != 0, file untouched, 'Error:' prefix. compile: well-formed programs x random non-empty subsets of the six output flags x {with, without the `compile` word}; oracle: the trees under the requested directories equal the in-process generators' file maps byte for byte, both spellings agree, nothing else appears in the sandboxed working directory (thorough: strace of write-type system calls on a sample). Non-trivial = valid text with >=1 declaration, invalid text derived from one, or compile with >=2 targets; distinct = hash of (mode, text, subset).",
		"stdout of `compile` is not part of the property (the tool reports progress there)")
	if p := pbt.ReplayPath(); p != "" {
		c.Direct(t, func() { k := loadCase[c16Case](t, p); c.Eval(); c.Report(pbt.DirectTB(t), k, evalC16(k)) })
		return
	}
	avoid := pbt.AvoidTags("C16", "C11")
	c.SetRecheck(func(k any) []pbt.Violation { return evalC16(k.(c16Case)) })
	c.ReplayKnown(t, func(raw json.RawMessage) []pbt.Violation {
		var k c16Case
		_ = json.Unmarshal(raw, &k)
		return evalC16(k)
	})
	n := 0
	c.Check(t, func(rt *rapid.T) {
		n++
		if rapid.IntRange(0, 3).Draw(rt, "mode") == 0 {
			p := dsl.GenProgram(rt, dsl.GenCfg{MaxPackets: 4, Avoid: avoid, Shapes: true, AnyOrder: true, KeywordNames: true})
			sub := drawSubset(rt)
			// the root packet is optional for the targets that do not need one (Go, Java, Rust)
			if !dsl.Has(p.Features(), "len") && rapid.IntRange(0, 4).Draw(rt, "no_root") == 0 {
				p.RootPacket().Root = false
				sub = rapid.SliceOfNDistinct(rapid.SampledFrom([]string{"rust", "go", "java"}), 1, 3, rapid.ID[string]).Draw(rt, "rootless_subset")
				c.Class("compile-program-without-root-packet")
				if rapid.IntRange(0, 2).Draw(rt, "with_refusing_target") == 0 {
					// one of the targets that need a root packet, anywhere among the flags
					sub = append(sub, rapid.SampledFrom([]string{"lua", "python", "cpp"}).Draw(rt, "refusing_target"))
					c.Class("compile-with-a-target-that-refuses-the-model")
				}
			}
			// the order of flags on the command line is free
			sub = rapid.Permutation(sub).Draw(rt, "flag_order")
			k := c16Case{Mode: "compile", Text: dsl.PlainText(p), Subset: sub, Strace: pbt.Thorough() && rapid.IntRange(0, 4).Draw(rt, "strace") == 0, Stale: rapid.IntRange(0, 2).Draw(rt, "stale_outputs") == 0}
			// output directories whose names look like subcommands or flags' values of the tool itself
			if rapid.IntRange(0, 2).Draw(rt, "odd_out_names") == 0 {
				names := rapid.Permutation([]string{"format", "compile", "help", "out dir", "completion", "gen"}).Draw(rt, "out_names")
				k.OutNames = names[:len(sub)]
				c.Class("compile-into-directories-named-like-subcommands")
			}
			// several output flags naming one directory
			if len(sub) >= 2 && rapid.IntRange(0, 3).Draw(rt, "shared_out_dir") == 0 {
				k.OutNames = make([]string, len(sub))
				nshare := rapid.IntRange(2, len(sub)).Draw(rt, "nshared")
				for i := range k.OutNames {
					if i < nshare {
						k.OutNames[i] = "gen"
					}
				}
				c.Class("compile-several-targets-into-one-directory")
			}
			if k.Stale {
				c.Class("compile-into-stale-directory")
			}
			drawArgForms(rt, c, &k, len(sub))
			c.Eval()
			c.Class(fmt.Sprintf("compile-%d-targets", len(sub)))
			if len(sub) >= 2 {
				s2 := append([]string{}, sub...)
				sort.Strings(s2)
				c.NonTrivial(pbt.Hash("compile", k.Text, s2), func() any { return map[string]any{"mode": "compile", "subset": sub, "dsl": clip(k.Text, 400)} })
			}
			c.Report(rt, k, evalC16(k))
			return
		}
		tc := genText(rt, c, dsl.AnywhereComments, rapid.Bool().Draw(rt, "wild"), avoid)
		text := tc.Text
		cls := "format-valid"
		if rapid.IntRange(0, 2).Draw(rt, "invalid") == 0 {
			text = mutate(rt, text)
			cls = "format-mutant"
		}
		if cls == "format-valid" && rapid.IntRange(0, 5).Draw(rt, "already_canonical") == 0 {
			// a file that is already in canonical layout, as an editor leaves it: with a final
			// newline or other blanks around the text
			if f, err, pm, _ := inproc.Format(text); err == nil && pm == "" && strings.TrimSpace(f) != "" {
				ws := []string{"", "\n", "\n\n", " ", "\t\n", "\r\n"}
				text = rapid.SampledFrom(ws).Draw(rt, "outer_pre") + f + rapid.SampledFrom(ws).Draw(rt, "outer_post")
				cls = "format-canonical-text-with-outer-blanks"
			}
		}
		text = strings.ReplaceAll(text, "\x00", "?")
		if strings.TrimSpace(text) == "" {
			text = "packet A {}"
		}
		if rapid.IntRange(0, 19).Draw(rt, "blank_text") == 0 {
			// a text of blanks only is a valid (empty) program: the library returns "" for it
			text = rapid.SampledFrom([]string{" ", "\n", "\t\n  ", "\r\n", "   \n\n"}).Draw(rt, "blanks")
			cls = "format-blank-text"
		}
		k := c16Case{Mode: "format", Text: text}
		drawArgForms(rt, c, &k, 1)
		k.FileLast, k.AbsOut = false, false
		// the C library keeps state between calls only if it is buggy: call it on other texts in between
		if rapid.Bool().Draw(rt, "lib_sequence") {
			other := genText(rt, c, dsl.AnywhereComments, false, avoid).Text
			if rapid.Bool().Draw(rt, "other_invalid") {
				other = mutate(rt, other)
			}
			other = strings.ReplaceAll(other, "\x00", "?")
			if strings.TrimSpace(other) != "" {
				k.Others = []string{other}
				c.Class("library-called-several-times-in-one-process")
			}
		}
		c.Eval()
		c.Class(cls)
		if len(tc.Toks) > 3 {
			c.NonTrivial(pbt.Hash("format", text), func() any { return map[string]any{"mode": "format", "class": cls, "text": clip(text, 400)} })
		}
		c.Report(rt, k, evalC16(k))
	})
}

// drawArgForms draws how the command line is spelled: every flag in its short or long form, with
// a blank, `=` or nothing between flag and value, the input flag first or last, relative or
// absolute output directories, and the input file by relative name.
func drawArgForms(rt *rapid.T, c *pbt.Collector, k *c16Case, nflags int) {
	if rapid.IntRange(0, 1).Draw(rt, "plain_argv") == 0 {
		return
	}
	k.ArgStyles = make([]int, nflags+1)
	for i := range k.ArgStyles {
		k.ArgStyles[i] = rapid.IntRange(0, 4).Draw(rt, fmt.Sprintf("arg_style%d", i))
		c.Class(fmt.Sprintf("flag-spelling-%d", k.ArgStyles[i]))
	}
	k.FileLast = rapid.Bool().Draw(rt, "file_flag_last")
	k.AbsOut = rapid.IntRange(0, 2).Draw(rt, "abs_out") == 0
	if rapid.IntRange(0, 2).Draw(rt, "in_name") == 0 {
		k.InName = rapid.SampledFrom([]string{"in.dsl", "./in.dsl", "proto/in.dsl", "my proto.dsl", "format", "compile.dsl", "in"}).Draw(rt, "in_file_name")
		for _, on := range k.OutNames {
			if on == k.InName {
				k.InName = "in.dsl"
			}
		}
		c.Class("input-file-by-relative-name")
	}
	if k.AbsOut {
		c.Class("absolute-output-directories")
	}
}
