package props

import (
	"encoding/hex"
	"encoding/json"
	"fmt"
	"testing"

	"github.com/xinchentechnote/fin-protoc/verifharness/dsl"
	"github.com/xinchentechnote/fin-protoc/verifharness/pbt"
	"pgregory.net/rapid"
)

// replayKnownX is ReplayKnown for typed cases.
func replayKnownX[T any](t *testing.T, c *pbt.Collector, eval func(T) []pbt.Violation) {
	c.ReplayKnown(t, func(raw json.RawMessage) []pbt.Violation {
		var k T
		if err := json.Unmarshal(raw, &k); err != nil {
			return []pbt.Violation{{Signature: "bad-repro", Detail: err.Error()}}
		}
		return eval(k)
	})
}

// evalC06: checksum fields hold ALG(bytes before the field) when registered, the caller's value
// otherwise, in the declared width and configured order; decoders read them back alike.
func evalC06(k xCase) []pbt.Violation {
	x := runCase(k, false)
	vs := commonViolations(k, x)
	if !x.HasSum {
		return dedupe(vs)
	}
	for _, l := range k.Langs {
		lr := x.Langs[l]
		if lr == nil || lr.BuildErr != nil || lr.Crash != "" {
			continue
		}
		for mode := 0; mode < modesOf(x); mode++ {
			mname := []string{"unregistered", "registered"}[mode]
			for i, m := range k.Msgs {
				lay := x.Ref[i].Layout[mode]
				want := x.Ref[i].Bytes[mode]
				r := lr.Enc[mode][i]
				if !r.OK {
					vs = append(vs, pbt.Violation{Signature: "enc-error:" + l + ":" + errClass(r.Err), Detail: fmt.Sprintf("%s encode fails (%s): %s", l, mname, clip(r.Err, 200))})
					break
				}
				got, _ := hex.DecodeString(r.Hex)
				if len(got) != len(want) {
					vs = append(vs, pbt.Violation{Signature: "sum-size:" + l, Detail: fmt.Sprintf("%s wrote %d bytes where the declared layout has %d", l, len(got), len(want))})
					continue
				}
				for _, sf := range leavesOf(lay, "sum") {
					g, w := hex.EncodeToString(got[sf.Off:sf.Off+sf.Len]), hex.EncodeToString(want[sf.Off:sf.Off+sf.Len])
					if g != w {
						vs = append(vs, pbt.Violation{Signature: "sum-value:" + l + ":" + mname + ":" + sf.Type, Detail: fmt.Sprintf("%s writes %s into checksum field %s (bytes %d..%d, algorithm %s); expected %s = %s", l, g, sf.Path, sf.Off, sf.Off+sf.Len, mname, w, map[int]string{0: "the caller's value", 1: "ALG over the preceding bytes"}[mode])})
					}
				}
				d := lr.Dec[mode][i]
				pk := k.Prog.PacketByName(m.Packet)
				if !d.OK {
					vs = append(vs, pbt.Violation{Signature: "dec-error:" + l + ":" + errClass(d.Err), Detail: fmt.Sprintf("%s decoder rejects the canonical encoding: %s", l, clip(d.Err, 160))})
					continue
				}
				for _, sf := range leavesOf(lay, "sum") {
					if tok, ok := dumpTokenFor(k.Prog, pk, d.Dump, sf.Path); ok && tok != fmt.Sprint(lay.Wire[sf.Path]) {
						vs = append(vs, pbt.Violation{Signature: "sum-decoded:" + l + ":" + sf.Type, Detail: fmt.Sprintf("%s decoder returns %s for checksum field %s whose wire value is %d", l, tok, sf.Path, lay.Wire[sf.Path])})
					}
				}
			}
		}
	}
	return dedupe(vs)
}

func TestC06(t *testing.T) {
	runXPropWith(t, xProp{id: "C06",
		rule: "packets (root and nested) with a calculated-from field of each integer width the language builds, either attribute spelling, both byte orders, preceded by 0..many bytes including variable-length fields and followed or not by further fields; every message is encoded twice, with the test algorithm registered and not registered, with arbitrary caller values. The test algorithm is a position-sensitive polynomial hash (31 bits; for 64-bit fields without a Java codec the hash in both halves of a 64-bit value) over the whole output buffer written so far, so covering one byte more or fewer, or only the current packet, changes it. Oracle: the field's range holds ALG(bytes[0:offset]) truncated to the declared width in the configured order when registered, the caller's value otherwise; the decoder's dump shows the wire value. Non-trivial = a checksum field with at least one preceding byte and a multi-byte width; distinct = hash of (program, messages, languages).",
		eval: evalC06,
		cfg: func(rt *rapid.T, avoid map[string]bool) (dsl.GenCfg, int, dsl.ValCfg, bool) {
			return dsl.GenCfg{MaxPackets: 3, MaxFields: 5, WantSum: true, WantLen: rapid.Bool().Draw(rt, "wantlen"), WantMatch: rapid.Bool().Draw(rt, "wantmatch"), Avoid: avoid}, 3, dsl.ValCfg{MaxList: 3}, false
		},
		nontrivial: func(k xCase) bool {
			f := k.Prog.Features()
			return dsl.Has(f, "sum") && !(dsl.Has(f, "sum:u8") && !dsl.Has(f, "sum:u16")) || dsl.Has(f, "sum:u16") || dsl.Has(f, "sum:u32") || dsl.Has(f, "sum:u64") || dsl.Has(f, "sum:i32")
		},
	}, func(rt *rapid.T, k *xCase) {
		// a 64-bit checksum field holds the algorithm's value in 64 bits: where no Java codec is
		// involved (its service interface returns an Integer) the registered test algorithm
		// returns values that do not fit 32 bits
		f := k.Prog.Features()
		if !(dsl.Has(f, "sum:u64") || dsl.Has(f, "sum:i64")) {
			return
		}
		var others []string
		for _, l := range k.Langs {
			if l != "java" {
				others = append(others, l)
			}
		}
		if len(others) < len(k.Langs) {
			// half of these cases go without the Java codec
			if len(others) == 0 || rapid.Bool().Draw(rt, "keep_java") {
				return
			}
			k.Langs = others
		}
		k.WideSum = true
	})
}
