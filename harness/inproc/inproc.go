// Package inproc drives fin-protoc's parser, formatter and generators in process, the way
// cmd.Compile sequences them, with panics turned into values.
package inproc

import (
	"fmt"
	"os"
	"path/filepath"
	"reflect"
	"regexp"
	"runtime/debug"
	"sort"
	"strings"
	"sync"
	"sync/atomic"
	"time"

	"github.com/xinchentechnote/fin-protoc/internal/model"
	"github.com/xinchentechnote/fin-protoc/internal/parser"
	"github.com/xinchentechnote/fin-protoc/verifharness/pbt"
)

var devNull *os.File
var quietMu sync.Mutex

func init() {
	_ = pbt.Out()
	devNull, _ = os.OpenFile(os.DevNull, os.O_WRONLY, 0)
}

// quiet runs f with os.Stdout pointing at /dev/null: the parser chats on stdout on every call.
// Only the calls into fin-protoc are silenced, the test framework's own output stays visible.
func quiet(f func()) {
	quietMu.Lock()
	defer quietMu.Unlock()
	saved := os.Stdout
	if devNull != nil {
		os.Stdout = devNull
	}
	defer func() { os.Stdout = saved }()
	f()
}

// Langs in the order cmd.Compile runs the generators.
var Langs = []string{"lua", "rust", "go", "java", "python", "cpp"}

// Diag is a semantic diagnostic.
type Diag struct {
	Line, Column int
	Msg          string
}

// Result of an in-process compilation.
type Result struct {
	ParseErr string // lexer/parser errors (ParseFile's error)
	Diags    []Diag
	Files    map[string]map[string][]byte
	GenErr   map[string]string
	Panic    string // "" or "<phase>: <value> @ <site>"
	PanicSig string // phase + site, stable across inputs
	Model    *model.BinaryModel
}

// OK reports a compilation without errors, diagnostics or panics.
func (r *Result) OK() bool {
	return r.ParseErr == "" && len(r.Diags) == 0 && r.Panic == "" && len(r.GenErr) == 0
}

var tmpSeq atomic.Int64

var siteRe = regexp.MustCompile(`(?m)^(github\.com/xinchentechnote/fin-protoc/(?:internal|cmd)[^\s(]*(?:\([^)]*\))?[^\s(]*)\(`)
var lineRe = regexp.MustCompile(`(?m)^\s+(/\S+\.go):(\d+)`)

// PanicSite extracts the innermost fin-protoc frame from a stack trace.
func PanicSite(stack string) string {
	lines := strings.Split(stack, "\n")
	for i, l := range lines {
		if strings.HasPrefix(l, "github.com/xinchentechnote/fin-protoc/internal") || strings.HasPrefix(l, "github.com/xinchentechnote/fin-protoc/cmd") {
			fn := l
			if j := strings.LastIndex(fn, "("); j > 0 {
				fn = fn[:j]
			}
			fn = strings.TrimPrefix(fn, "github.com/xinchentechnote/fin-protoc/")
			if strings.Contains(fn, "internal/grammar") {
				continue
			}
			file := ""
			if i+1 < len(lines) {
				f := strings.TrimSpace(lines[i+1])
				if j := strings.Index(f, " "); j > 0 {
					f = f[:j]
				}
				file = filepath.Base(f)
				if j := strings.Index(file, ":"); j > 0 {
					file = file[:j] // drop the line number: signatures must survive unrelated edits
				}
			}
			return fn + "@" + file
		}
	}
	return "unknown"
}

func guard(phase string, res *Result, f0 func()) {
	f := func() { quiet(f0) }
	defer func() {
		if r := recover(); r != nil {
			st := string(debug.Stack())
			site := PanicSite(st)
			res.Panic = fmt.Sprintf("%s: %v @ %s", phase, r, site)
			res.PanicSig = phase + ":" + site
		}
	}()
	f()
}

// Parse parses text through parser.ParseFile (the entry cmd.Compile uses).
func Parse(text string) *Result {
	res := &Result{Files: map[string]map[string][]byte{}, GenErr: map[string]string{}}
	dir := os.Getenv("VERIF_RUNDIR")
	if dir == "" {
		dir = os.TempDir()
	}
	name := filepath.Join(dir, fmt.Sprintf("inproc-%d-%d.dsl", os.Getpid(), tmpSeq.Add(1)))
	if err := os.WriteFile(name, []byte(text), 0o644); err != nil {
		panic(err)
	}
	defer os.Remove(name)
	guard("parse", res, func() {
		out, err := parser.ParseFile(name)
		if err != nil {
			res.ParseErr = err.Error()
			return
		}
		m, ok := out.(*model.BinaryModel)
		if !ok {
			res.ParseErr = fmt.Sprintf("ParseFile returned %T", out)
			return
		}
		res.Model = m
		for _, e := range m.SyntaxErrors {
			res.Diags = append(res.Diags, Diag{e.Line, e.Column, e.Msg})
		}
	})
	return res
}

// Gen runs one generator over a parsed model (as cmd.Compile constructs it).
func Gen(res *Result, lang string) {
	m := res.Model
	guard("gen-"+lang, res, func() {
		var files map[string][]byte
		var err error
		switch lang {
		case "lua":
			files, err = parser.NewLuaWspGenerator(m).Generate(m)
		case "rust":
			files, err = parser.NewRustGenerator(m).Generate(m)
		case "go":
			files, err = parser.NewGoGenerator(m).Generate(m)
		case "java":
			files, err = parser.NewJavaGenerator(m).Generate(m)
		case "python":
			files, err = parser.NewPythonGenerator(m).Generate(m)
		case "cpp":
			files, err = parser.NewCppGenerator(m).Generate(m)
		default:
			panic("lang " + lang)
		}
		if err != nil {
			res.GenErr[lang] = err.Error()
			return
		}
		res.Files[lang] = files
	})
}

// Compile = Parse + (when there are no diagnostics) the requested generators in order.
func Compile(text string, langs []string) *Result {
	res := Parse(text)
	if res.ParseErr != "" || res.Panic != "" || len(res.Diags) > 0 || res.Model == nil {
		return res
	}
	for _, l := range langs {
		Gen(res, l)
		if res.Panic != "" {
			return res
		}
	}
	return res
}

// Format calls the library formatter with panics captured.
func Format(text string) (out string, err error, panicMsg, panicSig string) {
	res := &Result{}
	guard("format", res, func() {
		out, err = parser.FormatPacketDsl(text)
	})
	return out, err, res.Panic, res.PanicSig
}

// FilesEqual compares two file maps; returns a description of the first difference.
func FilesEqual(a, b map[string][]byte) string {
	var names []string
	for n := range a {
		names = append(names, n)
	}
	for n := range b {
		if _, ok := a[n]; !ok {
			names = append(names, n)
		}
	}
	sort.Strings(names)
	for _, n := range names {
		x, okx := a[n]
		y, oky := b[n]
		if !okx {
			return "file " + n + " only in second"
		}
		if !oky {
			return "file " + n + " only in first"
		}
		if string(x) != string(y) {
			return "file " + n + " differs: " + firstDiff(string(x), string(y))
		}
	}
	return ""
}

func firstDiff(a, b string) string {
	la, lb := strings.Split(a, "\n"), strings.Split(b, "\n")
	for i := 0; i < len(la) || i < len(lb); i++ {
		var x, y string
		if i < len(la) {
			x = la[i]
		}
		if i < len(lb) {
			y = lb[i]
		}
		if x != y {
			return fmt.Sprintf("line %d: %q vs %q", i+1, clip(x), clip(y))
		}
	}
	return "?"
}

func clip(s string) string {
	if len(s) > 160 {
		return s[:160] + "..."
	}
	return s
}

// Snapshot is a deep, cycle-safe, deterministic dump of a model (pointers are followed, maps
// are sorted by key), used to detect generators mutating the parsed model.
func Snapshot(m *model.BinaryModel) string {
	var b strings.Builder
	seen := map[uintptr]int{}
	dump(&b, reflect.ValueOf(m), seen, 0)
	return b.String()
}

func dump(b *strings.Builder, v reflect.Value, seen map[uintptr]int, depth int) {
	if depth > 60 {
		b.WriteString("<deep>")
		return
	}
	switch v.Kind() {
	case reflect.Ptr:
		if v.IsNil() {
			b.WriteString("nil")
			return
		}
		if id, ok := seen[v.Pointer()]; ok {
			fmt.Fprintf(b, "&#%d", id)
			return
		}
		id := len(seen) + 1
		seen[v.Pointer()] = id
		fmt.Fprintf(b, "&#%d=", id)
		dump(b, v.Elem(), seen, depth+1)
	case reflect.Interface:
		if v.IsNil() {
			b.WriteString("nil")
			return
		}
		fmt.Fprintf(b, "(%s)", v.Elem().Type())
		dump(b, v.Elem(), seen, depth+1)
	case reflect.Struct:
		b.WriteString(v.Type().Name() + "{")
		for i := 0; i < v.NumField(); i++ {
			if v.Type().Field(i).Name == "OffendingSymbol" {
				continue
			}
			b.WriteString(v.Type().Field(i).Name + ":")
			dump(b, v.Field(i), seen, depth+1)
			b.WriteString(";")
		}
		b.WriteString("}")
	case reflect.Slice, reflect.Array:
		if v.Kind() == reflect.Slice && v.IsNil() {
			b.WriteString("nil[]")
			return
		}
		b.WriteString("[")
		for i := 0; i < v.Len(); i++ {
			dump(b, v.Index(i), seen, depth+1)
			b.WriteString(",")
		}
		b.WriteString("]")
	case reflect.Map:
		if v.IsNil() {
			b.WriteString("nilmap")
			return
		}
		keys := v.MapKeys()
		sort.Slice(keys, func(i, j int) bool { return fmt.Sprint(keys[i]) < fmt.Sprint(keys[j]) })
		b.WriteString("map{")
		for _, k := range keys {
			fmt.Fprintf(b, "%v=>", k)
			dump(b, v.MapIndex(k), seen, depth+1)
			b.WriteString(",")
		}
		b.WriteString("}")
	case reflect.String:
		fmt.Fprintf(b, "%q", v.String())
	default:
		fmt.Fprintf(b, "%v", v)
	}
}

// WithTimeout runs f in a goroutine and reports whether it returned within d. A function that
// does not return cannot be stopped; the caller is expected to end the process soon after.
func WithTimeout(d time.Duration, f func()) bool {
	done := make(chan struct{})
	go func() {
		defer close(done)
		f()
	}()
	select {
	case <-done:
		return true
	case <-time.After(d):
		return false
	}
}
