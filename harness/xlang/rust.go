package xlang

import (
	"fmt"
	"os"
	"path/filepath"
	"strings"

	"github.com/iancoleman/strcase"
	"github.com/xinchentechnote/fin-protoc/verifharness/cli"
	"github.com/xinchentechnote/fin-protoc/verifharness/dsl"
)

func rustDriver(p *dsl.Program) string {
	var b strings.Builder
	b.WriteString("#![allow(warnings)]\nuse std::io::{BufRead, Write};\nuse bytes::{Buf, Bytes, BytesMut};\nuse binary_codec::*;\n")
	for _, k := range p.Packets {
		fmt.Fprintf(&b, "use gen::%s::*;\n", strcase.ToSnake(k.Name))
	}
	b.WriteString(`
struct Toks { t: Vec<String>, i: usize }
impl Toks {
    fn next(&mut self) -> String { let v = self.t[self.i].clone(); self.i += 1; v }
    fn u64(&mut self) -> u64 { self.next().parse::<u64>().unwrap() }
    fn s(&mut self) -> String { let h = self.next(); String::from_utf8(unhex(&h[2..])).unwrap() }
}
fn unhex(h: &str) -> Vec<u8> { (0..h.len() / 2).map(|i| u8::from_str_radix(&h[2 * i..2 * i + 2], 16).unwrap()).collect() }
fn hex(b: &[u8]) -> String { b.iter().map(|x| format!("{:02x}", x)).collect() }
static WIDE_SUM: std::sync::atomic::AtomicBool = std::sync::atomic::AtomicBool::new(false);
fn wide(h: u32) -> u64 { if WIDE_SUM.load(std::sync::atomic::Ordering::SeqCst) { (h as u64) * 0x100000001 } else { h as u64 } }
struct TestSvc { kind: &'static str }
impl ChecksumService for TestSvc {
    fn calc(&self, buf: &BytesMut) -> Checksum {
        let mut h: u32 = 7;
        for c in buf.iter() { h = (h.wrapping_mul(131).wrapping_add(*c as u32).wrapping_add(1)) & 0x7fffffff; }
        if h & 7 == 0 { h = 0; }
        match self.kind {
            "u8" => Checksum::U8(h as u8), "u16" => Checksum::U16(h as u16), "u32" => Checksum::U32(h), "u64" => Checksum::U64(wide(h)),
            "i8" => Checksum::I8(h as i8), "i16" => Checksum::I16(h as i16), "i32" => Checksum::I32(h as i32), _ => Checksum::I64(wide(h) as i64),
        }
    }
}
`)
	rt := func(t string) string {
		if t == "char" {
			return "char"
		}
		return t
	}
	for _, fp := range Flatten(p) {
		k := fp.P
		sn := strcase.ToCamel(k.Name)
		fmt.Fprintf(&b, "fn build_%s(tk: &mut Toks) -> %s {\n", k.Name, sn)
		for _, f := range k.Fields {
			m := strcase.ToSnake(f.Name)
			one := ""
			switch f.Kind {
			case dsl.KScalar, dsl.KLen, dsl.KSum:
				switch f.Type {
				case "f32":
					one = "f32::from_bits(tk.u64() as u32)"
				case "f64":
					one = "f64::from_bits(tk.u64())"
				case "char":
					one = "(tk.u64() as u8) as char"
				default:
					one = "tk.u64() as " + rt(f.Type)
				}
			case dsl.KFixed, dsl.KDyn:
				one = "tk.s()"
			case dsl.KObj:
				one = "build_" + f.Ref + "(tk)"
			case dsl.KInline:
				one = "build_" + f.Inline.Name + "(tk)"
			case dsl.KMatch:
				en := sn + f.Name + "Enum"
				var arms strings.Builder
				seen := map[string]bool{}
				for _, pr := range f.Pairs {
					if seen[pr.Target] {
						continue
					}
					seen[pr.Target] = true
					fmt.Fprintf(&arms, "%q => %s::%s(build_%s(tk)), ", pr.Target, en, strcase.ToCamel(pr.Target), pr.Target)
				}
				one = "{ let name = tk.next(); match name.as_str() { " + arms.String() + "_ => panic!(\"payload\") } }"
			}
			if f.Repeat {
				fmt.Fprintf(&b, "    let %s = { let n = tk.u64(); let mut v = Vec::new(); for _ in 0..n { v.push(%s); } v };\n", m, one)
			} else {
				fmt.Fprintf(&b, "    let %s = %s;\n", m, one)
			}
		}
		fmt.Fprintf(&b, "    %s {", sn)
		for _, f := range k.Fields {
			fmt.Fprintf(&b, " %s,", strcase.ToSnake(f.Name))
		}
		b.WriteString(" }\n}\n")
		fmt.Fprintf(&b, "fn dump_%s(o: &%s, out: &mut Vec<String>) {\n", k.Name, sn)
		for _, f := range k.Fields {
			m := "o." + strcase.ToSnake(f.Name)
			one := func(x string, ref bool) string {
				d := x
				if ref {
					d = "*" + x
				}
				switch f.Kind {
				case dsl.KScalar, dsl.KLen, dsl.KSum:
					switch f.Type {
					case "f32":
						return fmt.Sprintf("out.push((%s).to_bits().to_string());", d)
					case "f64":
						return fmt.Sprintf("out.push((%s).to_bits().to_string());", d)
					case "i8":
						return fmt.Sprintf("out.push(((%s) as u8).to_string());", d)
					case "i16":
						return fmt.Sprintf("out.push(((%s) as u16).to_string());", d)
					case "i32":
						return fmt.Sprintf("out.push(((%s) as u32).to_string());", d)
					case "i64":
						return fmt.Sprintf("out.push(((%s) as u64).to_string());", d)
					case "char":
						return fmt.Sprintf("out.push(((%s) as u32).to_string());", d)
					default:
						return fmt.Sprintf("out.push((%s).to_string());", d)
					}
				case dsl.KFixed, dsl.KDyn:
					return fmt.Sprintf("out.push(format!(\"s:{}\", hex((%s).as_bytes())));", x)
				case dsl.KObj:
					amp := "&"
					if ref {
						amp = ""
					}
					return fmt.Sprintf("dump_%s(%s%s, out);", f.Ref, amp, x)
				case dsl.KInline:
					amp := "&"
					if ref {
						amp = ""
					}
					return fmt.Sprintf("dump_%s(%s%s, out);", f.Inline.Name, amp, x)
				case dsl.KMatch:
					en := strcase.ToCamel(k.Name) + f.Name + "Enum"
					var arms strings.Builder
					seen := map[string]bool{}
					for _, pr := range f.Pairs {
						if seen[pr.Target] {
							continue
						}
						seen[pr.Target] = true
						fmt.Fprintf(&arms, "%s::%s(x) => { out.push(%q.to_string()); dump_%s(x, out); } ", en, strcase.ToCamel(pr.Target), pr.Target, pr.Target)
					}
					return "match &" + x + " { " + arms.String() + "}"
				}
				return ""
			}
			if f.Repeat {
				fmt.Fprintf(&b, "    out.push(%s.len().to_string());\n    for x in %s.iter() { %s }\n", m, m, one("x", true))
			} else {
				fmt.Fprintf(&b, "    %s\n", one(m, false))
			}
		}
		b.WriteString("}\n")
	}
	// dispatch
	b.WriteString("fn enc_any(name: &str, tk: &mut Toks) -> BytesMut {\n    let mut buf = BytesMut::new();\n    match name {\n")
	for _, k := range p.Packets {
		fmt.Fprintf(&b, "        %q => build_%s(tk).encode(&mut buf),\n", k.Name, k.Name)
	}
	b.WriteString("        _ => panic!(\"packet\"),\n    }\n    buf\n}\n")
	b.WriteString("fn dec_any(name: &str, data: Vec<u8>) -> Option<(usize, String, Vec<String>)> {\n    let total = data.len();\n    let mut bytes = Bytes::from(data);\n    let mut out = Vec::new();\n    let mut re = BytesMut::new();\n    match name {\n")
	for _, k := range p.Packets {
		fmt.Fprintf(&b, "        %q => { let o = %s::decode(&mut bytes)?; dump_%s(&o, &mut out); o.encode(&mut re); }\n", k.Name, strcase.ToCamel(k.Name), k.Name)
	}
	b.WriteString("        _ => panic!(\"packet\"),\n    }\n    Some((total - bytes.remaining(), hex(&re), out))\n}\n")
	b.WriteString("fn set_checksums(on: bool) {\n    CHECKSUM_SERVICE_CONTEXT.clear();\n    if !on { return; }\n")
	algs := Algs(p)
	for _, a := range sortedKeys(algs) {
		fmt.Fprintf(&b, "    CHECKSUM_SERVICE_CONTEXT.register(%q, std::sync::Arc::new(TestSvc { kind: %q }));\n", a, algs[a])
	}
	b.WriteString("}\n")
	b.WriteString(`
fn handle(line: &str) -> String {
    let parts: Vec<&str> = line.splitn(4, ' ').collect();
    let id = if parts.len() > 1 { parts[1].to_string() } else { "-".to_string() };
    match parts[0] {
        "CKS" => { WIDE_SUM.store(parts[1] == "2", std::sync::atomic::Ordering::SeqCst); set_checksums(parts[1] != "0"); "R - ok".to_string() }
        "REUSE" => "R - ok".to_string(),
        "ENC" => {
            let arg = if parts.len() > 3 { parts[3] } else { "" };
            let mut tk = Toks { t: arg.split_whitespace().map(|s| s.to_string()).collect(), i: 0 };
            let buf = enc_any(parts[2], &mut tk);
            let h = hex(&buf);
            format!("R {} ok {}", id, if h.is_empty() { "-".to_string() } else { h })
        }
        "DEC" => {
            let data = if parts.len() > 3 && parts[3] != "-" { unhex(parts[3]) } else { Vec::new() };
            match dec_any(parts[2], data) {
                Some((c, re, out)) => format!("R {} ok {} {} | {}", id, c, if re.is_empty() { "-".to_string() } else { re }, out.join(" ")),
                None => format!("R {} err None", id),
            }
        }
        _ => format!("R {} err unknown", id),
    }
}

fn main() {
    let args: Vec<String> = std::env::args().collect();
    let f = std::fs::File::open(&args[1]).unwrap();
    std::panic::set_hook(Box::new(|_| {}));
    let stdout = std::io::stdout();
    for line in std::io::BufReader::new(f).lines() {
        let line = line.unwrap();
        if line.is_empty() { continue; }
        let l2 = line.clone();
        let r = std::panic::catch_unwind(move || handle(&l2));
        let s = match r {
            Ok(s) => s,
            Err(e) => {
                let id = line.splitn(3, ' ').nth(1).unwrap_or("-").to_string();
                let msg = if let Some(s) = e.downcast_ref::<String>() { s.clone() } else if let Some(s) = e.downcast_ref::<&str>() { s.to_string() } else { "panic".to_string() };
                format!("R {} err panic: {}", id, msg.replace("\n", " "))
            }
        };
        let mut o = stdout.lock();
        writeln!(o, "{}", s).unwrap();
        o.flush().unwrap();
    }
}
`)
	return b.String()
}

func rlib(name string) string {
	m, _ := filepath.Glob(filepath.Join(RTBuild(), "rust", "release", "deps", "lib"+name+"-*.rlib"))
	if len(m) == 0 {
		return ""
	}
	return m[0]
}

// BuildRust compiles the emitted crate (lib.rs + modules) and the driver with rustc.
func BuildRust(p *dsl.Program, files map[string][]byte, dir string, withTests bool) (*Built, *BuildError) {
	src := filepath.Join(dir, "src")
	if err := writeFiles(src, files); err != nil {
		return nil, &BuildError{"rust", "harness", err.Error()}
	}
	deps := filepath.Join(RTBuild(), "rust", "release", "deps")
	ext := []string{"--edition", "2021", "-L", "dependency=" + deps, "--extern", "bytes=" + rlib("bytes"), "--extern", "byteorder=" + rlib("byteorder"), "--extern", "binary_codec=" + rlib("binary_codec"), "--cap-lints", "allow", "-C", "debuginfo=0", "-C", "opt-level=0"}
	lib := filepath.Join(dir, "libgen.rlib")
	args := append([]string{"--crate-type", "rlib", "--crate-name", "gen", "-o", lib, filepath.Join(src, "lib.rs")}, ext...)
	r := cli.Run(dir, buildTimeout, nil, nil, "rustc", args...)
	if r.TimedOut {
		panic("harness: toolchain timed out (machine overloaded?)")
	}
	if r.Exit != 0 {
		return nil, &BuildError{"rust", "emitted", string(r.Stderr)}
	}
	if withTests {
		args := append([]string{"--test", "--crate-name", "gen", "-o", filepath.Join(dir, "emitted_tests"), filepath.Join(src, "lib.rs")}, ext...)
		r := cli.Run(dir, buildTimeout, nil, nil, "rustc", args...)
		if r.TimedOut {
			panic("harness: toolchain timed out (machine overloaded?)")
		}
		if r.Exit != 0 {
			return nil, &BuildError{"rust", "emitted-tests", string(r.Stderr)}
		}
	}
	drv := filepath.Join(dir, "drv.rs")
	_ = os.WriteFile(drv, []byte(rustDriver(p)), 0o644)
	bin := filepath.Join(dir, "drvbin")
	args = append([]string{"--crate-name", "drv", "-o", bin, drv, "--extern", "gen=" + lib}, ext...)
	r = cli.Run(dir, buildTimeout, nil, nil, "rustc", args...)
	if r.TimedOut {
		panic("harness: toolchain timed out (machine overloaded?)")
	}
	if r.Exit != 0 {
		return nil, &BuildError{"rust", "driver", string(r.Stderr)}
	}
	b := &Built{Lang: "rust", Dir: dir}
	b.run = func(cmdFile string) cli.Result { return cli.Run(dir, runTimeout, nil, nil, bin, cmdFile) }
	return b, nil
}
