package xlang

import (
	"fmt"
	"os"
	"path/filepath"
	"strings"

	"github.com/iancoleman/strcase"
	"github.com/xinchentechnote/fin-protoc/verifharness/cli"
	"github.com/xinchentechnote/fin-protoc/verifharness/dsl"
)

var goScalar = map[string]string{"u8": "uint8", "u16": "uint16", "u32": "uint32", "u64": "uint64", "i8": "int8", "i16": "int16", "i32": "int32", "i64": "int64", "f32": "float32", "f64": "float64", "char": "byte"}

// goDriver emits the driver source for the Go codec of p.
func goDriver(p *dsl.Program) string {
	var b strings.Builder
	b.WriteString(`package main

import (
	"bufio"
	"bytes"
	"encoding/hex"
	"fmt"
	"math"
	"os"
	"strconv"
	"strings"

	"github.com/xinchentechnote/fin-proto-go/codec"
	msg "` + p.Opts.GoModule + `"
)

var _ = math.Pi
var _ codec.BinaryCodec

type toks struct {
	t []string
	i int
}

func (k *toks) next() string { v := k.t[k.i]; k.i++; return v }
func (k *toks) u64() uint64 { v, err := strconv.ParseUint(k.next(), 10, 64); if err != nil { panic(err) }; return v }
func (k *toks) str() string { b, err := hex.DecodeString(k.next()[2:]); if err != nil { panic(err) }; return string(b) }
func hexs(s string) string { return "s:" + hex.EncodeToString([]byte(s)) }

type testSvc[T any] struct{ conv func(uint32) T }

func (s testSvc[T]) Calc(buf *bytes.Buffer) T {
	var h uint32 = 7
	for _, c := range buf.Bytes() {
		h = (h*131 + uint32(c) + 1) & 0x7fffffff
	}
	if h&7 == 0 {
		h = 0
	}
	return s.conv(h)
}

`)
	// build/dump per packet
	for _, fp := range Flatten(p) {
		k := fp.P
		tn := "msg." + strcase.ToCamel(k.Name)
		fmt.Fprintf(&b, "func build_%s(tk *toks) *%s {\n\to := &%s{}\n", k.Name, tn, tn)
		for _, f := range k.Fields {
			m := "o." + strcase.ToCamel(f.Name)
			one := ""
			elem := ""
			switch f.Kind {
			case dsl.KScalar, dsl.KLen, dsl.KSum:
				t := goScalar[f.Type]
				elem = t
				switch f.Type {
				case "f32":
					one = "math.Float32frombits(uint32(tk.u64()))"
				case "f64":
					one = "math.Float64frombits(tk.u64())"
				default:
					one = t + "(tk.u64())"
				}
			case dsl.KFixed, dsl.KDyn:
				elem, one = "string", "tk.str()"
			case dsl.KObj:
				elem, one = "*msg."+strcase.ToCamel(f.Ref), "build_"+f.Ref+"(tk)"
			case dsl.KInline:
				elem, one = "*msg."+strcase.ToCamel(f.Inline.Name), "build_"+f.Inline.Name+"(tk)"
			case dsl.KMatch:
				elem, one = "codec.BinaryCodec", "buildAny(tk)"
			}
			if f.Repeat {
				fmt.Fprintf(&b, "\t{\n\t\tn := int(tk.u64())\n\t\tvar l []%s\n\t\tfor i := 0; i < n; i++ {\n\t\t\tl = append(l, %s)\n\t\t}\n\t\t%s = l\n\t}\n", elem, one, m)
			} else {
				fmt.Fprintf(&b, "\t%s = %s\n", m, one)
			}
		}
		b.WriteString("\treturn o\n}\n\n")
		fmt.Fprintf(&b, "func dump_%s(o *%s, out *[]string) {\n", k.Name, tn)
		fmt.Fprintf(&b, "\tif o == nil {\n\t\to = &%s{}\n\t}\n", tn)
		for _, f := range k.Fields {
			m := "o." + strcase.ToCamel(f.Name)
			one := func(x string) string {
				switch f.Kind {
				case dsl.KScalar, dsl.KLen, dsl.KSum:
					switch f.Type {
					case "f32":
						return fmt.Sprintf("*out = append(*out, strconv.FormatUint(uint64(math.Float32bits(%s)), 10))", x)
					case "f64":
						return fmt.Sprintf("*out = append(*out, strconv.FormatUint(math.Float64bits(%s), 10))", x)
					case "i8":
						return fmt.Sprintf("*out = append(*out, strconv.FormatUint(uint64(uint8(%s)), 10))", x)
					case "i16":
						return fmt.Sprintf("*out = append(*out, strconv.FormatUint(uint64(uint16(%s)), 10))", x)
					case "i32":
						return fmt.Sprintf("*out = append(*out, strconv.FormatUint(uint64(uint32(%s)), 10))", x)
					default:
						return fmt.Sprintf("*out = append(*out, strconv.FormatUint(uint64(%s), 10))", x)
					}
				case dsl.KFixed, dsl.KDyn:
					return fmt.Sprintf("*out = append(*out, hexs(%s))", x)
				case dsl.KObj:
					return fmt.Sprintf("dump_%s(%s, out)", f.Ref, x)
				case dsl.KInline:
					return fmt.Sprintf("dump_%s(%s, out)", f.Inline.Name, x)
				case dsl.KMatch:
					return fmt.Sprintf("dumpAny(%s, out)", x)
				}
				return ""
			}
			if f.Repeat {
				fmt.Fprintf(&b, "\t*out = append(*out, strconv.Itoa(len(%s)))\n\tfor _, x := range %s {\n\t\t%s\n\t}\n", m, m, one("x"))
			} else {
				fmt.Fprintf(&b, "\t%s\n", one(m))
			}
		}
		b.WriteString("}\n\n")
	}
	// dynamic dispatch over top-level packets
	b.WriteString("func buildAny(tk *toks) codec.BinaryCodec {\n\tswitch name := tk.next(); name {\n")
	for _, k := range p.Packets {
		fmt.Fprintf(&b, "\tcase %q:\n\t\treturn build_%s(tk)\n", k.Name, k.Name)
	}
	b.WriteString("\tdefault:\n\t\tpanic(\"packet \" + name)\n\t}\n}\n\n")
	b.WriteString("func dumpAny(v codec.BinaryCodec, out *[]string) {\n\tswitch x := v.(type) {\n")
	for _, k := range p.Packets {
		fmt.Fprintf(&b, "\tcase *msg.%s:\n\t\t*out = append(*out, %q)\n\t\tdump_%s(x, out)\n", strcase.ToCamel(k.Name), k.Name, k.Name)
	}
	b.WriteString("\tdefault:\n\t\t*out = append(*out, fmt.Sprintf(\"?%T\", v))\n\t}\n}\n\n")
	b.WriteString("var reuse bool\nvar lastObj = map[string]codec.BinaryCodec{}\n\nfunc newAny(name string) codec.BinaryCodec {\n\tif o, ok := lastObj[name]; ok && reuse {\n\t\treturn o\n\t}\n\to := newAny0(name)\n\tlastObj[name] = o\n\treturn o\n}\n\n")
	b.WriteString("func newAny0(name string) codec.BinaryCodec {\n\tswitch name {\n")
	for _, k := range p.Packets {
		fmt.Fprintf(&b, "\tcase %q:\n\t\treturn &msg.%s{}\n", k.Name, strcase.ToCamel(k.Name))
	}
	b.WriteString("\t}\n\tpanic(\"packet \" + name)\n}\n\n")
	// checksum registration
	b.WriteString("var wideSum bool\n\nfunc setChecksums(on bool) {\n\tcodec.ClearServices()\n\tif !on {\n\t\treturn\n\t}\n")
	algs := Algs(p)
	for _, a := range sortedKeys(algs) {
		t := goScalar[algs[a]]
		if dsl.ScalarSize(algs[a]) == 8 {
			fmt.Fprintf(&b, "\tcodec.Register(%q, testSvc[%s]{conv: func(h uint32) %s {\n\t\tif wideSum {\n\t\t\treturn %s(uint64(h) * 0x100000001)\n\t\t}\n\t\treturn %s(h)\n\t}})\n", a, t, t, t, t)
			continue
		}
		fmt.Fprintf(&b, "\tcodec.Register(%q, testSvc[%s]{conv: func(h uint32) %s { return %s(h) }})\n", a, t, t, t)
	}
	b.WriteString("}\n\n")
	b.WriteString(`func handle(line string) (res string) {
	parts := strings.SplitN(line, " ", 4)
	id := "-"
	if len(parts) > 1 {
		id = parts[1]
	}
	defer func() {
		if r := recover(); r != nil {
			res = fmt.Sprintf("R %s err panic: %v", id, strings.ReplaceAll(fmt.Sprint(r), "\n", " "))
		}
	}()
	switch parts[0] {
	case "CKS":
		wideSum = parts[1] == "2"
		setChecksums(parts[1] != "0")
		return "R - ok"
	case "REUSE":
		reuse = parts[1] == "1"
		return "R - ok"
	case "ENC":
		arg := ""
		if len(parts) > 3 {
			arg = parts[3]
		}
		tk := &toks{t: strings.Fields(parts[2] + " " + arg)}
		o := buildAny(tk)
		var buf bytes.Buffer
		if err := o.Encode(&buf); err != nil {
			return fmt.Sprintf("R %s err %v", id, err)
		}
		h := hex.EncodeToString(buf.Bytes())
		if h == "" {
			h = "-"
		}
		return fmt.Sprintf("R %s ok %s", id, h)
	case "DEC":
		var data []byte
		if len(parts) > 3 && parts[3] != "-" {
			data, _ = hex.DecodeString(parts[3])
		}
		buf := bytes.NewBuffer(data)
		o := newAny(parts[2])
		if err := o.Decode(buf); err != nil {
			return fmt.Sprintf("R %s err %v", id, strings.ReplaceAll(err.Error(), "\n", " "))
		}
		consumed := len(data) - buf.Len()
		var out []string
		dumpAny(o, &out)
		var re bytes.Buffer
		reh := "-"
		if err := o.Encode(&re); err == nil && re.Len() > 0 {
			reh = hex.EncodeToString(re.Bytes())
		} else if err != nil {
			reh = "ERR"
		}
		return fmt.Sprintf("R %s ok %d %s | %s", id, consumed, reh, strings.Join(out[1:], " "))
	}
	return "R " + id + " err unknown command"
}

func main() {
	f, err := os.Open(os.Args[1])
	if err != nil {
		panic(err)
	}
	sc := bufio.NewScanner(f)
	sc.Buffer(make([]byte, 1<<20), 1<<28)
	w := bufio.NewWriter(os.Stdout)
	for sc.Scan() {
		if sc.Text() == "" {
			continue
		}
		fmt.Fprintln(w, handle(sc.Text()))
		w.Flush()
	}
}
`)
	return b.String()
}

// BuildGo lays the emitted package out in a module, builds it with its tests, then the driver.
func BuildGo(p *dsl.Program, files map[string][]byte, dir string, withTests bool) (*Built, *BuildError) {
	mod := p.Opts.GoModule
	pkg := p.Opts.GoPackage
	if mod == "" || pkg == "" || !strings.HasSuffix(mod, "/"+pkg) {
		return nil, &BuildError{"go", "harness", "GoModule must end in /GoPackage"}
	}
	modRoot := strings.TrimSuffix(mod, "/"+pkg)
	if err := writeFiles(filepath.Join(dir, pkg), files); err != nil {
		return nil, &BuildError{"go", "harness", err.Error()}
	}
	gomod := fmt.Sprintf("module %s\n\ngo 1.23\n\nrequire (\n\tgithub.com/xinchentechnote/fin-proto-go v0.0.0\n\tgithub.com/stretchr/testify v1.11.1\n)\n\nreplace github.com/xinchentechnote/fin-proto-go => %s\n", modRoot, filepath.Join(RT(), "go"))
	_ = os.WriteFile(filepath.Join(dir, "go.mod"), []byte(gomod), 0o644)
	if b, err := os.ReadFile(filepath.Join(os.Getenv("VERIF_REPO_DIR"), "go.sum")); err == nil {
		_ = os.WriteFile(filepath.Join(dir, "go.sum"), b, 0o644)
	} else if b, err := os.ReadFile("/repo/go.sum"); err == nil {
		_ = os.WriteFile(filepath.Join(dir, "go.sum"), b, 0o644)
	}
	_ = os.MkdirAll(filepath.Join(dir, "drv"), 0o755)
	_ = os.WriteFile(filepath.Join(dir, "drv", "main.go"), []byte(goDriver(p)), 0o644)
	env := []string{"GOFLAGS=-mod=mod", "GOPROXY=off", "GOTOOLCHAIN=local", "GONOSUMDB=*", "GONOSUMCHECK=1", "GOFLAGS=-mod=mod"}
	bin := filepath.Join(dir, "drvbin")
	r := cli.Run(dir, buildTimeout, nil, env, "go", "build", "-o", bin, "./drv")
	if r.TimedOut {
		panic("harness: toolchain timed out (machine overloaded?)")
	}
	if r.Exit != 0 {
		// which stage? build the emitted package alone
		r2 := cli.Run(dir, buildTimeout, nil, env, "go", "build", "./"+pkg)
		if r2.Exit != 0 {
			return nil, &BuildError{"go", "emitted", string(r2.Stderr) + string(r2.Stdout)}
		}
		return nil, &BuildError{"go", "driver", string(r.Stderr) + string(r.Stdout)}
	}
	if withTests {
		r := cli.Run(dir, buildTimeout, nil, env, "go", "test", "-c", "-vet=off", "-o", filepath.Join(dir, "emitted.test"), "./"+pkg)
		if r.TimedOut {
			panic("harness: toolchain timed out (machine overloaded?)")
		}
		if r.Exit != 0 {
			return nil, &BuildError{"go", "emitted-tests", string(r.Stderr) + string(r.Stdout)}
		}
	}
	b := &Built{Lang: "go", Dir: dir}
	b.run = func(cmdFile string) cli.Result { return cli.Run(dir, runTimeout, nil, nil, bin, cmdFile) }
	return b, nil
}
