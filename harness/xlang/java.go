package xlang

import (
	"fmt"
	"os"
	"path/filepath"
	"strings"

	"github.com/iancoleman/strcase"
	"github.com/xinchentechnote/fin-protoc/verifharness/cli"
	"github.com/xinchentechnote/fin-protoc/verifharness/dsl"
)

var javaPrim = map[string][2]string{"u8": {"byte", "Byte"}, "i8": {"byte", "Byte"}, "char": {"byte", "Byte"}, "u16": {"short", "Short"}, "i16": {"short", "Short"},
	"u32": {"int", "Integer"}, "i32": {"int", "Integer"}, "u64": {"long", "Long"}, "i64": {"long", "Long"}, "f32": {"float", "Float"}, "f64": {"double", "Double"}}

func javaClass(fp FlatPacket) string {
	if !fp.Inline {
		return fp.P.Name
	}
	return strings.Join(append(append([]string{}, fp.Outer...), fp.P.Name), ".")
}

func javaDriver(p *dsl.Program) string {
	var b strings.Builder
	cls := map[string]string{}
	for _, fp := range Flatten(p) {
		cls[fp.P.Name] = javaClass(fp)
	}
	fmt.Fprintf(&b, "package %s;\n\n", p.Opts.JavaPackage)
	b.WriteString(`import com.finproto.codec.BinaryCodec;
import com.finproto.codec.ChecksumService;
import com.finproto.codec.ChecksumServiceFactory;
import io.netty.buffer.ByteBuf;
import java.nio.charset.StandardCharsets;
import java.util.ArrayList;
import java.util.List;

public class Drv {
    static String[] t; static int i;
    static String next() { return t[i++]; }
    static long u64() { return Long.parseUnsignedLong(next()); }
    static String str() { String h = next().substring(2); byte[] b = new byte[h.length() / 2]; for (int k = 0; k < b.length; k++) b[k] = (byte) Integer.parseInt(h.substring(2 * k, 2 * k + 2), 16); return new String(b, StandardCharsets.UTF_8); }
    static String hex(byte[] b) { StringBuilder s = new StringBuilder(); for (byte x : b) s.append(String.format("%02x", x & 0xff)); return s.toString(); }
    static String hexs(String s) { return "s:" + hex((s == null ? "" : s).getBytes(StandardCharsets.UTF_8)); }
    static byte[] unhex(String h) { byte[] b = new byte[h.length() / 2]; for (int k = 0; k < b.length; k++) b[k] = (byte) Integer.parseInt(h.substring(2 * k, 2 * k + 2), 16); return b; }

`)
	for _, fp := range Flatten(p) {
		k := fp.P
		cn := cls[k.Name]
		fmt.Fprintf(&b, "    static %s build_%s() {\n        %s o = new %s();\n", cn, k.Name, cn, cn)
		for _, f := range k.Fields {
			set := "o.set" + strcase.ToCamel(f.Name)
			one, boxed := "", ""
			switch f.Kind {
			case dsl.KScalar, dsl.KLen, dsl.KSum:
				pt := javaPrim[f.Type]
				boxed = pt[1]
				switch f.Type {
				case "f32":
					one = "Float.intBitsToFloat((int) u64())"
				case "f64":
					one = "Double.longBitsToDouble(u64())"
				default:
					one = "(" + pt[0] + ") u64()"
				}
			case dsl.KFixed, dsl.KDyn:
				boxed, one = "String", "str()"
			case dsl.KObj:
				boxed, one = cls[f.Ref], "build_"+f.Ref+"()"
			case dsl.KInline:
				boxed, one = cls[f.Inline.Name], "build_"+f.Inline.Name+"()"
			case dsl.KMatch:
				boxed, one = "BinaryCodec", "buildAny()"
			}
			if f.Repeat {
				fmt.Fprintf(&b, "        { int n = (int) u64(); List<%s> l = new ArrayList<>(); for (int k = 0; k < n; k++) l.add(%s); %s(l); }\n", boxed, one, set)
			} else {
				fmt.Fprintf(&b, "        %s(%s);\n", set, one)
			}
		}
		b.WriteString("        return o;\n    }\n")
		fmt.Fprintf(&b, "    static void dump_%s(%s o, List<String> out) {\n        if (o == null) o = new %s();\n", k.Name, cn, cn)
		for _, f := range k.Fields {
			get := "o.get" + strcase.ToCamel(f.Name) + "()"
			one := func(x string) string {
				switch f.Kind {
				case dsl.KScalar, dsl.KLen, dsl.KSum:
					switch f.Type {
					case "u8", "i8", "char":
						return fmt.Sprintf("out.add(Long.toString(%s & 0xffL));", x)
					case "u16", "i16":
						return fmt.Sprintf("out.add(Long.toString(%s & 0xffffL));", x)
					case "u32", "i32":
						return fmt.Sprintf("out.add(Long.toString(%s & 0xffffffffL));", x)
					case "f32":
						return fmt.Sprintf("out.add(Long.toString(Float.floatToRawIntBits(%s) & 0xffffffffL));", x)
					case "f64":
						return fmt.Sprintf("out.add(Long.toUnsignedString(Double.doubleToRawLongBits(%s)));", x)
					default:
						return fmt.Sprintf("out.add(Long.toUnsignedString(%s));", x)
					}
				case dsl.KFixed, dsl.KDyn:
					return fmt.Sprintf("out.add(hexs(%s));", x)
				case dsl.KObj:
					return fmt.Sprintf("dump_%s(%s, out);", f.Ref, x)
				case dsl.KInline:
					return fmt.Sprintf("dump_%s(%s, out);", f.Inline.Name, x)
				case dsl.KMatch:
					return fmt.Sprintf("dumpAny(%s, out);", x)
				}
				return ""
			}
			if f.Repeat {
				fmt.Fprintf(&b, "        { var l = %s; out.add(Integer.toString(l == null ? 0 : l.size())); if (l != null) for (var x : l) { %s } }\n", get, one("x"))
			} else {
				fmt.Fprintf(&b, "        %s\n", one(get))
			}
		}
		b.WriteString("    }\n")
	}
	b.WriteString("    static BinaryCodec buildAny() {\n        String name = next();\n        switch (name) {\n")
	for _, k := range p.Packets {
		fmt.Fprintf(&b, "            case %q: return build_%s();\n", k.Name, k.Name)
	}
	b.WriteString("        }\n        throw new IllegalStateException(\"packet \" + name);\n    }\n")
	b.WriteString("    static boolean reuse = false;\n    static java.util.Map<String, BinaryCodec> last = new java.util.HashMap<>();\n    static BinaryCodec newAny(String name) {\n        if (reuse && last.containsKey(name)) return last.get(name);\n        BinaryCodec o = newAny0(name);\n        last.put(name, o);\n        return o;\n    }\n")
	b.WriteString("    static BinaryCodec newAny0(String name) {\n        switch (name) {\n")
	for _, k := range p.Packets {
		fmt.Fprintf(&b, "            case %q: return new %s();\n", k.Name, k.Name)
	}
	b.WriteString("        }\n        throw new IllegalStateException(\"packet \" + name);\n    }\n")
	b.WriteString("    static void dumpAny(BinaryCodec v, List<String> out) {\n")
	for _, k := range p.Packets {
		fmt.Fprintf(&b, "        if (v != null && v.getClass() == %s.class) { out.add(%q); dump_%s((%s) v, out); return; }\n", k.Name, k.Name, k.Name, k.Name)
	}
	b.WriteString("        out.add(\"?\" + (v == null ? \"null\" : v.getClass().getSimpleName()));\n    }\n")
	b.WriteString("    static void setChecksums(boolean on) {\n        ChecksumServiceFactory.getInstance().clear();\n        if (!on) return;\n")
	algs := Algs(p)
	for _, a := range sortedKeys(algs) {
		fmt.Fprintf(&b, "        ChecksumServiceFactory.getInstance().register(%q, (ChecksumService<ByteBuf, Integer>) buf -> { int h = 7; for (byte c : buf.toArray()) h = (h * 131 + (c & 0xff) + 1) & 0x7fffffff; if ((h & 7) == 0) h = 0; return h; });\n", a)
	}
	b.WriteString("    }\n")
	b.WriteString(`
    static String handle(String line) {
        String[] parts = line.split(" ", 4);
        String id = parts.length > 1 ? parts[1] : "-";
        try {
            switch (parts[0]) {
                case "CKS": setChecksums(!parts[1].equals("0")); return "R - ok";
                case "REUSE": reuse = parts[1].equals("1"); return "R - ok";
                case "ENC": {
                    String arg = parts.length > 3 ? parts[3] : "";
                    t = (parts[2] + " " + arg).trim().split("\\s+"); i = 0;
                    BinaryCodec o = buildAny();
                    ByteBuf buf = new ByteBuf();
                    o.encode(buf);
                    String h = hex(buf.toArray());
                    return "R " + id + " ok " + (h.isEmpty() ? "-" : h);
                }
                case "DEC": {
                    byte[] data = parts.length > 3 && !parts[3].equals("-") ? unhex(parts[3]) : new byte[0];
                    ByteBuf buf = new ByteBuf(data);
                    BinaryCodec o = newAny(parts[2]);
                    o.decode(buf);
                    List<String> out = new ArrayList<>();
                    dumpAny(o, out);
                    ByteBuf re = new ByteBuf();
                    String reh;
                    try { o.encode(re); reh = hex(re.toArray()); if (reh.isEmpty()) reh = "-"; } catch (RuntimeException e) { reh = "ERR"; }
                    return "R " + id + " ok " + buf.readerIndex() + " " + reh + " | " + String.join(" ", out.subList(1, out.size()));
                }
            }
            return "R " + id + " err unknown";
        } catch (Throwable e) {
            return "R " + id + " err " + (e.getClass().getSimpleName() + ": " + e.getMessage()).replace("\n", " ");
        }
    }

    public static void main(String[] a) throws Exception {
        java.io.PrintStream out = new java.io.PrintStream(new java.io.FileOutputStream(java.io.FileDescriptor.out), true, "UTF-8");
        for (String line : java.nio.file.Files.readAllLines(java.nio.file.Paths.get(a[0]), StandardCharsets.UTF_8)) {
            if (line.isEmpty()) continue;
            out.println(handle(line));
        }
    }
}
`)
	return b.String()
}

// BuildJava compiles the emitted classes (and tests) with the stand-in classpath, then the driver.
func BuildJava(p *dsl.Program, files map[string][]byte, dir string, withTests bool) (*Built, *BuildError) {
	src := filepath.Join(dir, "src")
	if err := writeFiles(src, files); err != nil {
		return nil, &BuildError{"java", "harness", err.Error()}
	}
	rt := filepath.Join(RTBuild(), "java")
	classes := filepath.Join(dir, "classes")
	_ = os.MkdirAll(classes, 0o755)
	var mainSrc, testSrc []string
	for name := range files {
		if strings.HasPrefix(name, "main/") {
			mainSrc = append(mainSrc, filepath.Join(src, name))
		} else {
			testSrc = append(testSrc, filepath.Join(src, name))
		}
	}
	pkgDir := filepath.Join(src, "main", "java", strings.ReplaceAll(p.Opts.JavaPackage, ".", "/"))
	drv := filepath.Join(pkgDir, "Drv.java")
	_ = os.MkdirAll(pkgDir, 0o755)
	_ = os.WriteFile(drv, []byte(javaDriver(p)), 0o644)
	base := []string{"-nowarn", "-proc:none", "-cp", rt, "-d", classes, "-J-XX:TieredStopAtLevel=1", "-J-Xshare:auto"}
	all := append(append([]string{}, base...), mainSrc...)
	all = append(all, drv)
	if withTests {
		all = append(all, testSrc...)
	}
	r := cli.Run(dir, buildTimeout, nil, nil, "javac", all...)
	if r.TimedOut {
		panic("harness: toolchain timed out (machine overloaded?)")
	}
	if r.Exit != 0 {
		r2 := cli.Run(dir, buildTimeout, nil, nil, "javac", append(append([]string{}, base...), mainSrc...)...)
		if r2.Exit != 0 {
			return nil, &BuildError{"java", "emitted", string(r2.Stderr) + string(r2.Stdout)}
		}
		if withTests {
			r3 := cli.Run(dir, buildTimeout, nil, nil, "javac", append(append(append([]string{}, base...), mainSrc...), testSrc...)...)
			if r3.Exit != 0 {
				return nil, &BuildError{"java", "emitted-tests", string(r3.Stderr) + string(r3.Stdout)}
			}
		}
		return nil, &BuildError{"java", "driver", string(r.Stderr) + string(r.Stdout)}
	}
	b := &Built{Lang: "java", Dir: dir}
	b.run = func(cmdFile string) cli.Result {
		return cli.Run(dir, runTimeout, nil, nil, "java", "-XX:TieredStopAtLevel=1", "-Xshare:auto", "-cp", classes+":"+rt, p.Opts.JavaPackage+".Drv", cmdFile)
	}
	return b, nil
}
