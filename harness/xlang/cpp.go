package xlang

import (
	"fmt"
	"os"
	"path/filepath"
	"strings"

	"github.com/iancoleman/strcase"
	"github.com/xinchentechnote/fin-protoc/verifharness/cli"
	"github.com/xinchentechnote/fin-protoc/verifharness/dsl"
)

var cppScalar = map[string]string{"u8": "uint8_t", "u16": "uint16_t", "u32": "uint32_t", "u64": "uint64_t", "i8": "int8_t", "i16": "int16_t", "i32": "int32_t", "i64": "int64_t", "f32": "float", "f64": "double", "char": "char"}

func cppDriver(p *dsl.Program) string {
	var b strings.Builder
	root := p.RootPacket()
	fmt.Fprintf(&b, "#include \"include/%s.hpp\"\n", strcase.ToSnake(root.Name))
	b.WriteString(`#include <cstdio>
#include <cstring>
#include <fstream>
#include <iostream>
#include <map>
#include <sstream>
#include <string>
#include <vector>

struct Toks { std::vector<std::string> t; size_t i = 0;
  std::string next() { return t.at(i++); }
  uint64_t u64() { return std::stoull(next()); }
  std::string str() { std::string h = next().substr(2), o; for (size_t k = 0; k + 1 < h.size(); k += 2) o.push_back((char)std::stoi(h.substr(k, 2), nullptr, 16)); return o; } };
static std::string hexb(const uint8_t* p, size_t n) { static const char* d = "0123456789abcdef"; std::string o; for (size_t k = 0; k < n; k++) { o.push_back(d[p[k] >> 4]); o.push_back(d[p[k] & 15]); } return o; }
static std::string hexs(const std::string& s) { return "s:" + hexb((const uint8_t*)s.data(), s.size()); }
static std::vector<uint8_t> unhex(const std::string& h) { std::vector<uint8_t> o; for (size_t k = 0; k + 1 < h.size(); k += 2) o.push_back((uint8_t)std::stoi(h.substr(k, 2), nullptr, 16)); return o; }
template <class T, class U> static T bitcast(U u) { T t; static_assert(sizeof(T) == sizeof(U), "size"); std::memcpy(&t, &u, sizeof(T)); return t; }
static std::unique_ptr<codec::BinaryCodec> buildAny(Toks& tk);
static void dumpAny(const codec::BinaryCodec* v, std::vector<std::string>& out);

`)
	flat := Flatten(p)
	// inline packets are declared before their owners by the generator; order by dependency is
	// not needed for function prototypes
	for _, fp := range flat {
		fmt.Fprintf(&b, "static void build_%s(Toks& tk, %s& o);\nstatic void dump_%s(const %s& o, std::vector<std::string>& out);\n", fp.P.Name, strcase.ToCamel(fp.P.Name), fp.P.Name, strcase.ToCamel(fp.P.Name))
	}
	for _, fp := range flat {
		k := fp.P
		fmt.Fprintf(&b, "static void build_%s(Toks& tk, %s& o) {\n", k.Name, strcase.ToCamel(k.Name))
		for _, f := range k.Fields {
			m := "o." + strcase.ToLowerCamel(f.Name)
			switch f.Kind {
			case dsl.KScalar, dsl.KLen, dsl.KSum:
				t := cppScalar[f.Type]
				conv := "(" + t + ")tk.u64()"
				if f.Type == "f32" {
					conv = "bitcast<float, uint32_t>((uint32_t)tk.u64())"
				} else if f.Type == "f64" {
					conv = "bitcast<double, uint64_t>(tk.u64())"
				}
				if f.Repeat {
					fmt.Fprintf(&b, "  { size_t n = tk.u64(); %s.clear(); for (size_t k = 0; k < n; k++) %s.push_back(%s); }\n", m, m, conv)
				} else {
					fmt.Fprintf(&b, "  %s = %s;\n", m, conv)
				}
			case dsl.KFixed, dsl.KDyn:
				if f.Repeat {
					fmt.Fprintf(&b, "  { size_t n = tk.u64(); %s.clear(); for (size_t k = 0; k < n; k++) %s.push_back(tk.str()); }\n", m, m)
				} else {
					fmt.Fprintf(&b, "  %s = tk.str();\n", m)
				}
			case dsl.KObj, dsl.KInline:
				ref := f.Ref
				if f.Kind == dsl.KInline {
					ref = f.Inline.Name
				}
				if f.Repeat {
					fmt.Fprintf(&b, "  { size_t n = tk.u64(); %s.clear(); for (size_t k = 0; k < n; k++) { %s.emplace_back(); build_%s(tk, %s.back()); } }\n", m, m, ref, m)
				} else {
					fmt.Fprintf(&b, "  build_%s(tk, %s);\n", ref, m)
				}
			case dsl.KMatch:
				fmt.Fprintf(&b, "  %s = buildAny(tk);\n", m)
			}
		}
		b.WriteString("}\n")
		fmt.Fprintf(&b, "static void dump_%s(const %s& o, std::vector<std::string>& out) {\n", k.Name, strcase.ToCamel(k.Name))
		for _, f := range k.Fields {
			m := "o." + strcase.ToLowerCamel(f.Name)
			one := func(x string) string {
				switch f.Kind {
				case dsl.KScalar, dsl.KLen, dsl.KSum:
					switch f.Type {
					case "f32":
						return fmt.Sprintf("out.push_back(std::to_string((uint64_t)bitcast<uint32_t, float>(%s)));", x)
					case "f64":
						return fmt.Sprintf("out.push_back(std::to_string(bitcast<uint64_t, double>(%s)));", x)
					case "i8", "u8", "char":
						return fmt.Sprintf("out.push_back(std::to_string((uint64_t)(uint8_t)%s));", x)
					case "i16":
						return fmt.Sprintf("out.push_back(std::to_string((uint64_t)(uint16_t)%s));", x)
					case "i32":
						return fmt.Sprintf("out.push_back(std::to_string((uint64_t)(uint32_t)%s));", x)
					default:
						return fmt.Sprintf("out.push_back(std::to_string((uint64_t)%s));", x)
					}
				case dsl.KFixed, dsl.KDyn:
					return fmt.Sprintf("out.push_back(hexs(%s));", x)
				case dsl.KObj:
					return fmt.Sprintf("dump_%s(%s, out);", f.Ref, x)
				case dsl.KInline:
					return fmt.Sprintf("dump_%s(%s, out);", f.Inline.Name, x)
				case dsl.KMatch:
					return fmt.Sprintf("dumpAny(%s.get(), out);", x)
				}
				return ""
			}
			if f.Repeat {
				fmt.Fprintf(&b, "  out.push_back(std::to_string(%s.size()));\n  for (const auto& x : %s) { %s }\n", m, m, one("x"))
			} else {
				fmt.Fprintf(&b, "  %s\n", one(m))
			}
		}
		b.WriteString("}\n")
	}
	b.WriteString("static std::unique_ptr<codec::BinaryCodec> buildAny(Toks& tk) {\n  std::string name = tk.next();\n")
	for _, k := range p.Packets {
		fmt.Fprintf(&b, "  if (name == %q) { auto o = std::make_unique<%s>(); build_%s(tk, *o); return o; }\n", k.Name, strcase.ToCamel(k.Name), k.Name)
	}
	b.WriteString("  throw std::runtime_error(\"packet \" + name);\n}\n")
	b.WriteString("static std::unique_ptr<codec::BinaryCodec> newAny0(const std::string& name);\nstatic bool reuse = false;\nstatic std::map<std::string, std::unique_ptr<codec::BinaryCodec>> lastObj;\nstatic codec::BinaryCodec* newAny(const std::string& name) {\n  auto it = lastObj.find(name);\n  if (reuse && it != lastObj.end()) return it->second.get();\n  lastObj[name] = newAny0(name);\n  return lastObj[name].get();\n}\n")
	b.WriteString("static std::unique_ptr<codec::BinaryCodec> newAny0(const std::string& name) {\n")
	for _, k := range p.Packets {
		fmt.Fprintf(&b, "  if (name == %q) return std::make_unique<%s>();\n", k.Name, strcase.ToCamel(k.Name))
	}
	b.WriteString("  throw std::runtime_error(\"packet \" + name);\n}\n")
	b.WriteString("static void dumpAny(const codec::BinaryCodec* v, std::vector<std::string>& out) {\n")
	for _, k := range p.Packets {
		fmt.Fprintf(&b, "  if (auto x = dynamic_cast<const %s*>(v)) { out.push_back(%q); dump_%s(*x, out); return; }\n", strcase.ToCamel(k.Name), k.Name, k.Name)
	}
	b.WriteString("  out.push_back(\"?unknown\");\n}\n")
	b.WriteString("static bool wideSum = false;\nstatic void setChecksums(bool on) {\n  ChecksumServiceContext::instance().clear();\n  if (!on) return;\n")
	algs := Algs(p)
	for _, a := range sortedKeys(algs) {
		wide := "false"
		if dsl.ScalarSize(algs[a]) == 8 {
			wide = "wideSum"
		}
		fmt.Fprintf(&b, "  ChecksumServiceContext::instance().reg(%q, [](const std::vector<uint8_t>& d) { uint32_t h = 7; for (auto c : d) h = (h * 131u + c + 1u) & 0x7fffffffu; if ((h & 7u) == 0) h = 0; return (%s) ? (uint64_t)h * 0x100000001ull : (uint64_t)h; });\n", a, wide)
	}
	b.WriteString("}\n")
	b.WriteString(`
static std::string handle(const std::string& line) {
  std::vector<std::string> parts; { size_t pos = 0; for (int k = 0; k < 3; k++) { size_t sp = line.find(' ', pos); if (sp == std::string::npos) break; parts.push_back(line.substr(pos, sp - pos)); pos = sp + 1; } parts.push_back(line.substr(pos)); }
  std::string id = parts.size() > 1 ? parts[1] : "-";
  try {
    if (parts[0] == "CKS") { wideSum = parts[1] == "2"; setChecksums(parts[1] != "0"); return "R - ok"; }
    if (parts[0] == "REUSE") { reuse = parts[1] == "1"; return "R - ok"; }
    if (parts[0] == "ENC") {
      Toks tk; std::istringstream is(parts[2] + " " + (parts.size() > 3 ? parts[3] : "")); std::string w; while (is >> w) tk.t.push_back(w);
      auto o = buildAny(tk); ByteBuf buf; o->encode(buf);
      std::string h = hexb(buf.data().data(), buf.data().size());
      return "R " + id + " ok " + (h.empty() ? "-" : h);
    }
    if (parts[0] == "DEC") {
      std::vector<uint8_t> data; if (parts.size() > 3 && parts[3] != "-") data = unhex(parts[3]);
      ByteBuf buf(data); auto o = newAny(parts[2]); o->decode(buf);
      std::vector<std::string> out; dumpAny(o, out);
      std::string reh; try { ByteBuf re; o->encode(re); reh = hexb(re.data().data(), re.data().size()); if (reh.empty()) reh = "-"; } catch (const std::exception&) { reh = "ERR"; }
      std::string d; for (size_t k = 1; k < out.size(); k++) { if (k > 1) d += " "; d += out[k]; }
      return "R " + id + " ok " + std::to_string(buf.reader_index()) + " " + reh + " | " + d;
    }
    return "R " + id + " err unknown";
  } catch (const std::exception& e) {
    std::string m = e.what(); for (auto& c : m) if (c == '\n') c = ' ';
    return "R " + id + " err exception: " + m;
  }
}

int main(int argc, char** argv) {
  std::ifstream f(argv[1]); std::string line;
  while (std::getline(f, line)) { if (line.empty()) continue; std::cout << handle(line) << std::endl; }
  return 0;
}
`)
	return b.String()
}

// BuildCpp checks the emitted header (and test file) and builds the driver with g++.
func BuildCpp(p *dsl.Program, files map[string][]byte, dir string, withTests bool) (*Built, *BuildError) {
	out := filepath.Join(dir, "out")
	if err := writeFiles(out, files); err != nil {
		return nil, &BuildError{"cpp", "harness", err.Error()}
	}
	rt := filepath.Join(RT(), "cpp")
	drv := filepath.Join(dir, "drv.cpp")
	_ = os.WriteFile(drv, []byte(cppDriver(p)), 0o644)
	bin := filepath.Join(dir, "drvbin")
	flags := []string{"-std=c++17", "-O0", "-w", "-I", rt, "-I", out}
	if os.Getenv("VERIF_TIER") == "thorough" {
		flags = append(flags, "-fsanitize=address,undefined", "-fno-sanitize-recover=undefined")
	}
	r := cli.Run(dir, buildTimeout, nil, nil, "g++", append(append([]string{}, flags...), "-o", bin, drv)...)
	if r.TimedOut {
		panic("harness: toolchain timed out (machine overloaded?)")
	}
	if r.Exit != 0 {
		root := p.RootPacket()
		hdr := filepath.Join(out, "include", strcase.ToSnake(root.Name)+".hpp")
		r2 := cli.Run(dir, buildTimeout, nil, nil, "g++", append(append([]string{}, flags...), "-fsyntax-only", "-x", "c++", hdr)...)
		if r2.Exit != 0 {
			return nil, &BuildError{"cpp", "emitted", string(r2.Stderr)}
		}
		return nil, &BuildError{"cpp", "driver", string(r.Stderr)}
	}
	if withTests {
		for name := range files {
			if strings.HasSuffix(name, "_test.cpp") {
				r := cli.Run(dir, buildTimeout, nil, nil, "g++", append(append([]string{}, flags...), "-o", filepath.Join(dir, "emitted_tests"), filepath.Join(out, name))...)
				if r.TimedOut {
					panic("harness: toolchain timed out (machine overloaded?)")
				}
				if r.Exit != 0 {
					return nil, &BuildError{"cpp", "emitted-tests", string(r.Stderr)}
				}
			}
		}
	}
	b := &Built{Lang: "cpp", Dir: dir}
	b.run = func(cmdFile string) cli.Result { return cli.Run(dir, runTimeout, nil, nil, bin, cmdFile) }
	return b, nil
}
