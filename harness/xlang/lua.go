package xlang

import (
	"fmt"
	"os"
	"path/filepath"
	"strconv"
	"strings"

	"github.com/xinchentechnote/fin-protoc/verifharness/cli"
	"github.com/xinchentechnote/fin-protoc/verifharness/dsl"
)

// LuaRec is one recorded tree:add(field, range).
type LuaRec struct {
	Abbr     string
	Off, Len int
	Order    string // "be" (add) or "le" (le_add)
	Kind     string // ProtoField constructor used
}

// LuaRun is the outcome of dissecting one message.
type LuaRun struct {
	Recs  []LuaRec
	Final int // local 'offset' when the main dissector returned (-1 unknown)
	Len   int
	OK    bool
	Err   string
}

// LuaResult is the outcome of loading the script and dissecting all messages.
type LuaResult struct {
	LoadErr string // syntax error or error while running the top level of the script
	Runs    []LuaRun
	Crash   string
}

// RunLua executes the emitted dissector script under the API stub over hex-encoded messages.
func RunLua(p *dsl.Program, files map[string][]byte, dir string, msgs []string) *LuaResult {
	res := &LuaResult{}
	if err := writeFiles(dir, files); err != nil {
		res.Crash = err.Error()
		return res
	}
	var script string
	for name := range files {
		if strings.HasSuffix(name, ".lua") {
			script = filepath.Join(dir, name)
		}
	}
	var sb strings.Builder
	for _, m := range msgs {
		if m == "" {
			m = "-"
		}
		sb.WriteString(m + "\n")
	}
	cmdFile := filepath.Join(dir, "lua-cmds.txt")
	_ = os.WriteFile(cmdFile, []byte(sb.String()), 0o644)
	r := cli.Run(dir, runTimeout, nil, nil, filepath.Join(RTBuild(), "luahost"), filepath.Join(RT(), "lua", "run.lua"), filepath.Join(RT(), "lua", "wsstub.lua"), script, cmdFile)
	out := string(r.Stdout)
	loaded := false
	res.Runs = make([]LuaRun, len(msgs))
	for i := range res.Runs {
		res.Runs[i].Final = -1
	}
	seen := 0
	for _, line := range strings.Split(out, "\n") {
		switch {
		case strings.HasPrefix(line, "LOADERR "), strings.HasPrefix(line, "TOPERR "):
			res.LoadErr = line
			return res
		case line == "LOADED":
			loaded = true
		case strings.HasPrefix(line, "REC "):
			f := strings.Fields(line)
			if len(f) >= 7 {
				i, _ := strconv.Atoi(f[1])
				off, _ := strconv.Atoi(f[3])
				ln, _ := strconv.Atoi(f[4])
				if i < len(res.Runs) {
					res.Runs[i].Recs = append(res.Runs[i].Recs, LuaRec{f[2], off, ln, f[5], f[6]})
				}
			}
		case strings.HasPrefix(line, "END "):
			f := strings.SplitN(line, " ", 6)
			i, _ := strconv.Atoi(f[1])
			if i < len(res.Runs) && len(f) >= 6 {
				run := &res.Runs[i]
				if v, err := strconv.Atoi(strings.TrimPrefix(f[2], "final=")); err == nil {
					run.Final = v
				}
				run.Len, _ = strconv.Atoi(strings.TrimPrefix(f[3], "len="))
				run.OK = f[4] == "ok=true"
				run.Err = strings.TrimPrefix(f[5], "err=")
				seen++
			}
		}
	}
	if !loaded || seen < len(msgs) {
		res.Crash = fmt.Sprintf("lua host ended early (exit %d, %d of %d messages): %s", r.Exit, seen, len(msgs), clipS(string(r.Stderr)+out, 500))
	}
	return res
}
