// Package xlang compiles the code fin-protoc emits for a program with the real toolchains,
// links it against the stand-in runtimes and a harness driver, and runs encode/decode
// commands over it.
package xlang

import (
	"encoding/hex"
	"encoding/json"
	"fmt"
	"os"
	"path/filepath"
	"sort"
	"strconv"
	"strings"
	"sync"
	"time"

	"github.com/iancoleman/strcase"
	"github.com/xinchentechnote/fin-protoc/verifharness/cli"
	"github.com/xinchentechnote/fin-protoc/verifharness/dsl"
	"github.com/xinchentechnote/fin-protoc/verifharness/pbt"
)

// Codecs are the five codec languages.
var Codecs = []string{"python", "go", "rust", "java", "cpp"}

// RT is the directory of the stand-in runtimes; RTBuild holds what setup.sh built from them.
func RT() string      { return filepath.Join(pbt.Root(), "runtimes") }
func RTBuild() string { return filepath.Join(pbt.Root(), "build", "rt") }

// FlatPacket is a packet (top-level or inline) with the names the emitters give it.
type FlatPacket struct {
	P      *dsl.Packet
	Inline bool
	Outer  []string // enclosing top-level/inline packet names (Java nests inline classes)
}

// Flatten lists all packets of a program, inline ones included, top-level first.
func Flatten(p *dsl.Program) []FlatPacket {
	var out []FlatPacket
	var walk func(k *dsl.Packet, outer []string)
	walk = func(k *dsl.Packet, outer []string) {
		for _, f := range k.Fields {
			if f.Kind == dsl.KInline {
				o := append(append([]string{}, outer...), k.Name)
				out = append(out, FlatPacket{P: f.Inline, Inline: true, Outer: o})
				walk(f.Inline, o)
			}
		}
	}
	for _, k := range p.Packets {
		out = append(out, FlatPacket{P: k})
	}
	for _, k := range p.Packets {
		walk(k, nil)
	}
	return out
}

// Algs lists the checksum algorithm names of a program with the type of the field using them.
func Algs(p *dsl.Program) map[string]string {
	out := map[string]string{}
	mixed := map[string]bool{}
	var walk func(k *dsl.Packet)
	walk = func(k *dsl.Packet) {
		for _, f := range k.Fields {
			if f.Kind == dsl.KSum {
				if t, seen := out[f.Alg]; seen && t != f.Type {
					mixed[f.Alg] = true
				}
				out[f.Alg] = f.Type
			}
			if f.Kind == dsl.KInline {
				walk(f.Inline)
			}
		}
	}
	for _, k := range p.Packets {
		walk(k)
	}
	// an algorithm name used with several result types cannot be registered as one typed service
	for a := range mixed {
		delete(out, a)
	}
	return out
}

func sortedKeys(m map[string]string) []string {
	var ks []string
	for k := range m {
		ks = append(ks, k)
	}
	sort.Strings(ks)
	return ks
}

// Cmd is one driver command.
type Cmd struct {
	Op     string // CKS ENC DEC
	Packet string
	Arg    string // tokens (ENC), hex (DEC), 0/1 (CKS)
}

// Res is one driver result.
type Res struct {
	OK       bool
	Err      string // reported error text when !OK
	Hex      string // ENC: bytes; DEC: re-encoded bytes
	Consumed int
	Dump     string
}

// BuildError says why emitted code (or the driver on top of it) did not build.
type BuildError struct {
	Lang   string
	Stage  string // "emitted" (the emitted files alone do not build) | "driver" (they build, the driver naming every declared type/member does not)
	Output string
}

func (e *BuildError) Error() string { return e.Lang + " " + e.Stage + ": " + clipS(e.Output, 1500) }

func clipS(s string, n int) string {
	if len(s) > n {
		return s[:n] + "..."
	}
	return s
}

// Built is a compiled program + driver for one language.
type Built struct {
	Lang string
	Dir  string
	run  func(cmdFile string) cli.Result
	mu   sync.Mutex
	n    int
}

// Run executes commands; process death is reported as an error string with Crash = true.
func (b *Built) Run(cmds []Cmd) ([]Res, string) {
	b.mu.Lock()
	b.n++
	name := filepath.Join(b.Dir, fmt.Sprintf("cmds-%d.txt", b.n))
	b.mu.Unlock()
	var sb strings.Builder
	idx := 0
	for _, c := range cmds {
		switch c.Op {
		case "CKS", "REUSE":
			fmt.Fprintf(&sb, "%s %s\n", c.Op, c.Arg)
		default:
			arg := c.Arg
			if c.Op == "DEC" && arg == "" {
				arg = "-"
			}
			fmt.Fprintf(&sb, "%s %d %s %s\n", c.Op, idx, c.Packet, arg)
		}
		idx++
	}
	if err := os.WriteFile(name, []byte(sb.String()), 0o644); err != nil {
		return nil, err.Error()
	}
	defer os.Remove(name)
	r := b.run(name)
	if r.TimedOut {
		panic("harness: driver timed out (machine overloaded?)")
	}
	out := make([]Res, len(cmds))
	seen := make([]bool, len(cmds))
	for _, line := range strings.Split(string(r.Stdout), "\n") {
		if !strings.HasPrefix(line, "R ") {
			continue
		}
		f := strings.SplitN(line, " ", 4)
		if len(f) < 3 || f[1] == "-" {
			continue
		}
		i, err := strconv.Atoi(f[1])
		if err != nil || i < 0 || i >= len(cmds) {
			continue
		}
		seen[i] = true
		rest := ""
		if len(f) > 3 {
			rest = f[3]
		}
		if f[2] != "ok" {
			out[i] = Res{Err: rest}
			if out[i].Err == "" {
				out[i].Err = "error"
			}
			continue
		}
		res := Res{OK: true}
		if cmds[i].Op == "ENC" {
			res.Hex = strings.TrimSpace(rest)
			if res.Hex == "-" {
				res.Hex = ""
			}
		} else {
			parts := strings.SplitN(rest, " | ", 2)
			hd := strings.Fields(parts[0])
			if len(hd) >= 2 {
				res.Consumed, _ = strconv.Atoi(hd[0])
				res.Hex = hd[1]
				if res.Hex == "-" {
					res.Hex = ""
				}
			}
			if len(parts) > 1 {
				res.Dump = strings.TrimSpace(parts[1])
			}
			if strings.HasSuffix(rest, " |") {
				res.Dump = ""
			}
		}
		out[i] = res
	}
	crash := ""
	for i := range cmds {
		if cmds[i].Op != "CKS" && cmds[i].Op != "REUSE" && !seen[i] {
			crash = fmt.Sprintf("driver process died (exit %d signal %q) before answering command %d: %s", r.Exit, r.Signal, i, clipS(string(r.Stderr), 600))
			break
		}
	}
	return out, crash
}

// Hex helper.
func Hex(b []byte) string { return hex.EncodeToString(b) }

// pySchema is what the generic Python driver needs.
func pySchema(p *dsl.Program) []byte {
	type sf struct {
		Name   string `json:"name"`
		Member string `json:"member"`
		Kind   string `json:"kind"`
		Type   string `json:"type,omitempty"`
		Repeat bool   `json:"repeat"`
		Ref    string `json:"ref,omitempty"`
	}
	type sp struct {
		Name   string `json:"name"`
		Cls    string `json:"cls"`
		Inline bool   `json:"inline"`
		Fields []sf   `json:"fields"`
	}
	var ps []sp
	for _, fp := range Flatten(p) {
		x := sp{Name: fp.P.Name, Cls: strcase.ToCamel(fp.P.Name), Inline: fp.Inline, Fields: []sf{}}
		for _, f := range fp.P.Fields {
			y := sf{Name: f.Name, Member: strcase.ToSnake(f.Name), Kind: f.Kind.String(), Type: f.Type, Repeat: f.Repeat}
			switch f.Kind {
			case dsl.KObj:
				y.Ref = f.Ref
			case dsl.KInline:
				y.Ref = f.Inline.Name
			}
			x.Fields = append(x.Fields, y)
		}
		ps = append(ps, x)
	}
	type alg struct {
		Name string `json:"name"`
		Type string `json:"type"`
	}
	var as []alg
	a := Algs(p)
	for _, k := range sortedKeys(a) {
		as = append(as, alg{k, a[k]})
	}
	b, _ := json.Marshal(map[string]any{"packets": ps, "algs": as})
	return b
}

func writeFiles(dir string, files map[string][]byte) error {
	for name, b := range files {
		fp := filepath.Join(dir, name)
		if err := os.MkdirAll(filepath.Dir(fp), 0o755); err != nil {
			return err
		}
		if err := os.WriteFile(fp, b, 0o644); err != nil {
			return err
		}
	}
	return nil
}

const buildTimeout = 180 * time.Second
const runTimeout = 120 * time.Second

// BuildPython lays the emitted module out and byte-compiles it.
func BuildPython(p *dsl.Program, files map[string][]byte, dir string) (*Built, *BuildError) {
	out := filepath.Join(dir, "out")
	if err := writeFiles(out, files); err != nil {
		return nil, &BuildError{"python", "harness", err.Error()}
	}
	root := p.RootPacket()
	mod := strcase.ToSnake(root.Name)
	_ = os.WriteFile(filepath.Join(dir, "schema.json"), pySchema(p), 0o644)
	env := []string{"PYTHONPATH=" + out + ":" + filepath.Join(RT(), "python"), "PYTHONDONTWRITEBYTECODE=1"}
	// import the module (and its test module): syntax errors and bad top-level code show here
	r := cli.Run(dir, buildTimeout, nil, env, "python3", "-c", "import importlib,sys; importlib.import_module(sys.argv[1]); importlib.import_module(sys.argv[1]+'_test')", mod)
	if r.TimedOut {
		panic("harness: toolchain timed out (machine overloaded?)")
	}
	if r.Exit != 0 {
		return nil, &BuildError{"python", "emitted", string(r.Stderr) + string(r.Stdout)}
	}
	b := &Built{Lang: "python", Dir: dir}
	b.run = func(cmdFile string) cli.Result {
		return cli.Run(dir, runTimeout, nil, env, "python3", filepath.Join(RT(), "python", "driver.py"), mod, filepath.Join(dir, "schema.json"), cmdFile)
	}
	return b, nil
}
