/* libdriver <libpacketdsl.so> <input-file>...: loads the library once, calls
   FormatPacketDslExport on each file's bytes (as a C string) in order, and writes every
   returned C string to stdout as "<decimal length>\n<bytes>\n". Exit 0 when all calls returned. */
#include <dlfcn.h>
#include <stdio.h>
#include <stdlib.h>
#include <string.h>

int main(int argc, char **argv) {
    if (argc < 3) { fprintf(stderr, "usage\n"); return 3; }
    void *h = dlopen(argv[1], RTLD_NOW);
    if (!h) { fprintf(stderr, "dlopen: %s\n", dlerror()); return 3; }
    char *(*fn)(char *) = (char *(*)(char *))dlsym(h, "FormatPacketDslExport");
    if (!fn) { fprintf(stderr, "dlsym failed\n"); return 3; }
    for (int a = 2; a < argc; a++) {
        FILE *f = fopen(argv[a], "rb");
        if (!f) { fprintf(stderr, "open failed\n"); return 3; }
        fseek(f, 0, SEEK_END);
        long n = ftell(f);
        fseek(f, 0, SEEK_SET);
        char *buf = malloc(n + 1);
        if (fread(buf, 1, n, f) != (size_t)n) { fprintf(stderr, "read failed\n"); return 3; }
        buf[n] = 0;
        fclose(f);
        char *out = fn(buf);
        if (!out) { fprintf(stderr, "NULL result\n"); return 4; }
        printf("%zu\n", strlen(out));
        fwrite(out, 1, strlen(out), stdout);
        printf("\n");
        free(out);
        free(buf);
    }
    return 0;
}
