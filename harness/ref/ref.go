// Package ref is the reference codec: it is written from the statements of C01/C04/C06 over
// the harness's own AST and shares no code with fin-protoc.
package ref

import (
	"fmt"

	"github.com/xinchentechnote/fin-protoc/verifharness/dsl"
)

// Leaf is one wire element with the byte range it occupies.
type Leaf struct {
	Path  string `json:"path"`           // Packet.Field[0].Sub
	Owner string `json:"owner"`          // declaring packet (inline packets by their own name)
	Field string `json:"field"`          // declared field name
	Kind  string `json:"kind"`           // scalar fixed dyn len sum listprefix strprefix
	Type  string `json:"type"`           // scalar type / prefix type
	Elem  string `json:"elem,omitempty"` // list prefix: kind (and scalar type) of the elements
	Off   int    `json:"off"`
	Len   int    `json:"len"`
}

// Range is the byte range of a whole (possibly composite) field.
type Range struct{ Off, Len int }

// Layout is what Encode learned about the message.
type Layout struct {
	Leaves []Leaf
	Ranges map[string]Range  // path -> range of the field's whole encoding
	Wire   map[string]uint64 // path -> wire value of length-of / checksum fields
}

// Checksum is the harness's test algorithm: position-sensitive, 31 bits.
func Checksum(b []byte) uint32 {
	var h uint32 = 7
	for _, c := range b {
		h = (h*131 + uint32(c) + 1) & 0x7fffffff
	}
	if h&7 == 0 {
		return 0 // one value in eight is 0: a checksum of zero is as good as any other
	}
	return h
}

type enc struct {
	p   *dsl.Program
	cfg dsl.Config
	buf []byte
	lay *Layout
	reg func(alg string) bool
	// wide: a registered algorithm of a 64-bit checksum field returns a value that needs all
	// 64 bits (WideChecksum), not the 31-bit hash
	wide bool
}

func (e *enc) putUint(v uint64, size int, le bool) {
	for i := 0; i < size; i++ {
		sh := uint(i * 8)
		if !le {
			sh = uint((size - 1 - i) * 8)
		}
		e.buf = append(e.buf, byte(v>>sh))
	}
}

func (e *enc) setUint(off int, v uint64, size int, le bool) {
	for i := 0; i < size; i++ {
		sh := uint(i * 8)
		if !le {
			sh = uint((size - 1 - i) * 8)
		}
		e.buf[off+i] = byte(v >> sh)
	}
}

func (e *enc) leaf(path, owner, field, kind, typ string, off, n int) {
	e.lay.Leaves = append(e.lay.Leaves, Leaf{Path: path, Owner: owner, Field: field, Kind: kind, Type: typ, Off: off, Len: n})
}

// Encode produces the canonical encoding of message v of packet k. registered tells whether a
// checksum algorithm name has a service.
func Encode(p *dsl.Program, k *dsl.Packet, v dsl.Val, registered func(string) bool) ([]byte, *Layout) {
	return EncodeWide(p, k, v, registered, false)
}

// WideChecksum is the value of the test algorithm for 64-bit checksum fields in wide mode: the
// 31-bit hash in both halves, so that a result cut to 32 bits on its way into the field shows.
func WideChecksum(b []byte) uint64 { return uint64(Checksum(b)) * 0x100000001 }

// EncodeWide is Encode with the wide test algorithm for 64-bit checksum fields.
func EncodeWide(p *dsl.Program, k *dsl.Packet, v dsl.Val, registered func(string) bool, wide bool) ([]byte, *Layout) {
	e := &enc{p: p, cfg: p.Opts.Effective(), lay: &Layout{Ranges: map[string]Range{}, Wire: map[string]uint64{}}, reg: registered, wide: wide}
	e.packet(k, v, k.Name)
	return e.buf, e.lay
}

func (e *enc) packet(k *dsl.Packet, v dsl.Val, path string) {
	if len(v.F) != len(k.Fields) {
		panic(fmt.Sprintf("value arity %d != fields %d in %s", len(v.F), len(k.Fields), k.Name))
	}
	lenPos := map[string]struct {
		off  int
		path string
		f    *dsl.Field
	}{}
	for i, f := range k.Fields {
		fp := path + "." + f.Name
		start := len(e.buf)
		if f.Repeat {
			sz := dsl.ScalarSize(e.cfg.AP)
			e.leaf(fp+"#n", k.Name, f.Name, "listprefix", e.cfg.AP, len(e.buf), sz)
			el := f.Kind.String()
			if f.Kind == dsl.KScalar {
				el += ":" + f.Type
			}
			e.lay.Leaves[len(e.lay.Leaves)-1].Elem = el
			e.putUint(uint64(len(v.F[i].L)), sz, e.cfg.LE)
			for j, it := range v.F[i].L {
				e.one(k, f, it, fmt.Sprintf("%s[%d]", fp, j))
			}
		} else if f.Kind == dsl.KLen {
			sz := dsl.ScalarSize(f.Type)
			lenPos[f.Target] = struct {
				off  int
				path string
				f    *dsl.Field
			}{len(e.buf), fp, f}
			e.leaf(fp, k.Name, f.Name, "len", f.Type, len(e.buf), sz)
			e.putUint(0, sz, e.cfg.LE)
		} else {
			e.one(k, f, v.F[i], fp)
		}
		e.lay.Ranges[fp] = Range{start, len(e.buf) - start}
		if lp, ok := lenPos[f.Name]; ok {
			n := uint64(len(e.buf) - start)
			sz := dsl.ScalarSize(lp.f.Type)
			if sz < 8 {
				n &= (uint64(1) << (uint(sz) * 8)) - 1
			}
			e.setUint(lp.off, n, sz, e.cfg.LE)
			e.lay.Wire[lp.path] = n
		}
	}
}

func (e *enc) one(k *dsl.Packet, f *dsl.Field, v dsl.Val, path string) {
	switch f.Kind {
	case dsl.KScalar:
		sz := dsl.ScalarSize(f.Type)
		e.leaf(path, k.Name, f.Name, "scalar", f.Type, len(e.buf), sz)
		e.putUint(v.U, sz, e.cfg.LE)
	case dsl.KSum:
		sz := dsl.ScalarSize(f.Type)
		val := v.U
		if e.reg != nil && e.reg(f.Alg) {
			val = uint64(Checksum(e.buf))
			if e.wide && sz == 8 {
				val = WideChecksum(e.buf)
			}
		}
		if sz < 8 {
			val &= (uint64(1) << (uint(sz) * 8)) - 1
		}
		e.leaf(path, k.Name, f.Name, "sum", f.Type, len(e.buf), sz)
		e.putUint(val, sz, e.cfg.LE)
		e.lay.Wire[path] = val
	case dsl.KFixed:
		pad, left := e.p.PadFor(f)
		e.leaf(path, k.Name, f.Name, "fixed", "", len(e.buf), f.N)
		s := v.S
		if len(s) > f.N {
			s = s[:f.N]
		}
		fill := make([]byte, f.N-len(s))
		for i := range fill {
			fill[i] = pad
		}
		if left {
			e.buf = append(e.buf, fill...)
			e.buf = append(e.buf, s...)
		} else {
			e.buf = append(e.buf, s...)
			e.buf = append(e.buf, fill...)
		}
	case dsl.KDyn:
		sz := dsl.ScalarSize(e.cfg.SP)
		e.leaf(path+"#len", k.Name, f.Name, "strprefix", e.cfg.SP, len(e.buf), sz)
		e.putUint(uint64(len(v.S)), sz, e.cfg.LE)
		e.leaf(path, k.Name, f.Name, "dyn", "", len(e.buf), len(v.S))
		e.buf = append(e.buf, v.S...)
	case dsl.KObj:
		e.packet(e.p.PacketByName(f.Ref), v, path)
	case dsl.KInline:
		e.packet(f.Inline, v, path)
	case dsl.KMatch:
		e.packet(e.p.PacketByName(v.T), v, path)
	default:
		panic("ref: kind")
	}
}

// Canon is the value a conforming decoder returns for v (see dsl.Canon), using the wire values
// of the reference encoding.
func Canon(p *dsl.Program, k *dsl.Packet, v dsl.Val, lay *Layout) dsl.Val {
	return dsl.Canon(p, k, v, func(path string, f *dsl.Field) (uint64, bool) {
		w, ok := lay.Wire[path]
		return w, ok
	}, k.Name)
}
