package dsl

import (
	"encoding/hex"
	"fmt"
	"math"
	"strings"
	"unicode/utf8"

	"pgregory.net/rapid"
)

// Val is a message value in the harness's neutral form.
type Val struct {
	U   uint64 `json:"u,omitempty"` // scalar: raw bits truncated to the declared width
	S   []byte `json:"s,omitempty"` // strings
	L   []Val  `json:"l,omitempty"` // repeated field: items
	F   []Val  `json:"f,omitempty"` // object / match payload: one Val per declared field
	T   string `json:"t,omitempty"` // match payload: dynamic packet name
	IsL bool   `json:"isl,omitempty"`
}

func mask(t string) uint64 {
	switch ScalarSize(t) {
	case 1:
		return 0xff
	case 2:
		return 0xffff
	case 4:
		return 0xffffffff
	}
	return math.MaxUint64
}

// ValCfg bounds the value generator.
type ValCfg struct {
	// KeyPick >= 0: the top-level packet's match fields take their (KeyPick mod n)-th key, so
	// that consecutive messages walk through the table; < 0: drawn at random
	KeyPick int
	MaxList  int // typical list length bound
	LongList bool
	MaxStr   int
	// Huge: one top-level dynamic string of 32768..65535 bytes and one top-level list of more
	// than 32767 one-byte numbers, where the configured prefix types can count that far (the
	// upper half of a two-byte prefix, where a signed reading goes negative)
	Huge bool
}

func genScalar(t *rapid.T, typ, label string) uint64 {
	m := mask(typ)
	switch typ {
	case "char":
		return uint64(rapid.SampledFrom([]byte{'a', 'Z', '0', ' ', '~', '!', 'q'}).Draw(t, label+"_ch"))
	case "f32":
		return uint64(rapid.SampledFrom([]uint32{0, 0x80000000, 0x3fc00000, 0x7f7fffff, 0x00000001, 0x7f800000, 0xff800000, 0xc2f70000, 0x3dcccccd}).Draw(t, label+"_f32"))
	case "f64":
		return rapid.SampledFrom([]uint64{0, 0x8000000000000000, 0x3ff8000000000000, 0x7fefffffffffffff, 1, 0x7ff0000000000000, 0xfff0000000000000, 0xc05ee00000000000, 0x3fb999999999999a}).Draw(t, label+"_f64")
	}
	bits := uint(ScalarSize(typ) * 8)
	switch rapid.IntRange(0, 3).Draw(t, label+"_cls") {
	case 0:
		return rapid.Uint64().Draw(t, label+"_any") & m
	case 1:
		b := []uint64{0, 1, m, m - 1, m >> 1, (m >> 1) + 1, 0x0102030405060708 & m, 0x80 & m, 0xff & m, 0x100 & m}
		return rapid.SampledFrom(b).Draw(t, label+"_bnd")
	case 2:
		k := rapid.UintRange(0, bits-1).Draw(t, label+"_pow")
		d := rapid.SampledFrom([]uint64{0, 1, math.MaxUint64}).Draw(t, label+"_pd")
		return ((uint64(1) << k) + d) & m
	}
	return rapid.Uint64Range(0, 300).Draw(t, label+"_small") & m
}

var strPool = []string{"", "a", "AB", "hello", "x y", "Zürich", "日本語", "€", "q0", "0", "00ab", " lead", "trail ", "0", "a,b;c", "UPPER_lower-1", "~!@#$%^&*()", "🙂"}

func genBytes(t *rapid.T, maxLen int, label string) []byte {
	if maxLen <= 0 {
		return nil
	}
	switch rapid.IntRange(0, 5).Draw(t, label+"_scls") {
	case 0:
		return nil
	case 1, 2:
		s := rapid.SampledFrom(strPool).Draw(t, label+"_pool")
		return []byte(fit(s, maxLen))
	case 3:
		// exactly maxLen ASCII bytes when that is reasonably small
		if maxLen <= 300 {
			return []byte(strings.Repeat("m", maxLen))
		}
		return []byte(strings.Repeat("m", 300))
	default:
		n := rapid.IntRange(0, min(maxLen, 40)).Draw(t, label+"_slen")
		s := rapid.StringOfN(rapid.SampledFrom([]rune("abcXYZ019 _-é日")), n, n, -1).Draw(t, label+"_str")
		return []byte(fit(s, maxLen))
	}
}

// fit truncates s to at most n bytes on a rune boundary.
func fit(s string, n int) string {
	for len(s) > n {
		_, sz := utf8.DecodeLastRuneInString(s)
		s = s[:len(s)-sz]
	}
	return s
}

func prefixCap(t string) int {
	switch t {
	case "u8":
		return 255
	case "u16":
		return 65535
	}
	return 1 << 30
}

// GenMessage draws a message for packet k.
func GenMessage(t *rapid.T, p *Program, k *Packet, vc ValCfg, label string) Val {
	return genPacketVal(t, p, k, vc, label, 0)
}

func genPacketVal(t *rapid.T, p *Program, k *Packet, vc ValCfg, label string, depth int) Val {
	cfg := p.Opts.Effective()
	out := Val{F: make([]Val, len(k.Fields))}
	// pre-pick match pairs so that key fields get the matching value
	keyVal := map[string]string{} // key field name -> key literal
	pick := map[string]Pair{}
	for _, f := range k.Fields {
		if f.Kind == KMatch {
			var pr Pair
			var ks string
			if depth == 0 && vc.KeyPick > 0 {
				var all []struct {
					p Pair
					k string
				}
				for _, p0 := range f.Pairs {
					for _, k0 := range p0.Keys {
						all = append(all, struct {
							p Pair
							k string
						}{p0, k0})
					}
				}
				pick := all[(vc.KeyPick-1)%len(all)]
				pr, ks = pick.p, pick.k
			} else {
				pr = f.Pairs[rapid.IntRange(0, len(f.Pairs)-1).Draw(t, label+"."+f.Name+"_pair")]
				ks = pr.Keys[rapid.IntRange(0, len(pr.Keys)-1).Draw(t, label+"."+f.Name+"_key")]
			}
			keyVal[f.Key] = ks
			pick[f.Name] = pr
		}
	}
	hugeStr, hugeList := false, false
	for i, f := range k.Fields {
		fl := label + "." + f.Name
		one := func(il string) Val {
			switch f.Kind {
			case KScalar, KLen, KSum:
				return Val{U: genScalar(t, f.Type, il)}
			case KFixed:
				return Val{S: genFixed(t, p, f, il)}
			case KDyn:
				if vc.Huge && depth == 0 && !f.Repeat && prefixCap(cfg.SP) >= 65535 && !hugeStr {
					hugeStr = true
					n := rapid.SampledFrom([]int{32768, 40000, 65535, 32767}).Draw(t, il+"_huge")
					return Val{S: []byte(strings.Repeat("h", n))}
				}
				ms := prefixCap(cfg.SP)
				if vc.MaxStr > 0 && vc.MaxStr < ms {
					ms = vc.MaxStr
				}
				return Val{S: genBytes(t, ms, il)}
			case KObj:
				return genPacketVal(t, p, p.PacketByName(f.Ref), vc, il, depth+1)
			case KInline:
				return genPacketVal(t, p, f.Inline, vc, il, depth+1)
			}
			panic("kind")
		}
		if ks, ok := keyVal[f.Name]; ok && !f.Repeat {
			out.F[i] = KeyToVal(f, ks)
			continue
		}
		if f.Kind == KMatch {
			pr := pick[f.Name]
			v := genPacketVal(t, p, p.PacketByName(pr.Target), vc, fl, depth+1)
			v.T = pr.Target
			out.F[i] = v
			continue
		}
		if f.Repeat {
			capN := prefixCap(cfg.AP)
			maxN := vc.MaxList
			if maxN == 0 {
				maxN = 3
			}
			var n int
			if vc.Huge && depth == 0 && !hugeList && f.Kind == KScalar && ScalarSize(f.Type) == 1 && f.Type != "char" && capN >= 65535 {
				hugeList = true
				n = rapid.SampledFrom([]int{32768, 33000, 65535}).Draw(t, fl+"_hugelist")
				v := Val{IsL: true}
				for j := 0; j < n; j++ {
					v.L = append(v.L, Val{U: uint64(j % 251)})
				}
				out.F[i] = v
				continue
			}
			switch rapid.IntRange(0, 9).Draw(t, fl+"_lcls") {
			case 0, 1:
				n = 0
			case 2:
				if vc.LongList && depth == 0 && (f.Kind == KScalar || f.Kind == KFixed) {
					n = min(capN, 300)
					if capN == 255 {
						n = 255
					}
				} else {
					n = 1
				}
			default:
				n = rapid.IntRange(1, maxN).Draw(t, fl+"_ln")
			}
			v := Val{IsL: true}
			for j := 0; j < n; j++ {
				v.L = append(v.L, one(fmt.Sprintf("%s[%d]", fl, j)))
			}
			out.F[i] = v
			continue
		}
		out.F[i] = one(fl)
	}
	return out
}

// KeyToVal converts a key literal into the key field's value.
func KeyToVal(f *Field, ks string) Val {
	if strings.HasPrefix(ks, "\"") {
		return Val{S: []byte(strings.Trim(ks, "\""))}
	}
	var u uint64
	fmt.Sscan(ks, &u)
	return Val{U: u}
}

func genFixed(t *rapid.T, p *Program, f *Field, label string) []byte {
	pad, left := p.PadFor(f)
	for try := 0; try < 20; try++ {
		b := genBytes(t, f.N, label)
		// values that begin/end with the pad byte on the padded side do not survive trimming;
		// they are legal input for encode, but the canonical value is the trimmed one
		if len(b) > 0 && ((left && b[0] == pad) || (!left && b[len(b)-1] == pad)) {
			if rapid.IntRange(0, 3).Draw(t, label+"_keeppad") != 0 {
				continue
			}
		}
		if bytesHas(b, 0) {
			continue
		}
		return b
	}
	return []byte("k")[:min(1, f.N)]
}

func bytesHas(b []byte, c byte) bool {
	for _, x := range b {
		if x == c {
			return true
		}
	}
	return false
}

// Tokens writes the neutral token form of a message of packet k (Appendix B of DESIGN.md).
func (v Val) Tokens(p *Program, k *Packet) string {
	var sb strings.Builder
	v.tokens(p, k, &sb)
	return strings.TrimSpace(sb.String())
}

func (v Val) tokens(p *Program, k *Packet, sb *strings.Builder) {
	for i, f := range k.Fields {
		fv := v.F[i]
		one := func(x Val) {
			switch f.Kind {
			case KScalar, KLen, KSum:
				fmt.Fprintf(sb, "%d ", x.U)
			case KFixed, KDyn:
				fmt.Fprintf(sb, "s:%s ", hex.EncodeToString(x.S))
			case KObj:
				x.tokens(p, p.PacketByName(f.Ref), sb)
			case KInline:
				x.tokens(p, f.Inline, sb)
			case KMatch:
				fmt.Fprintf(sb, "%s ", x.T)
				x.tokens(p, p.PacketByName(x.T), sb)
			}
		}
		if f.Repeat {
			fmt.Fprintf(sb, "%d ", len(fv.L))
			for _, it := range fv.L {
				one(it)
			}
		} else {
			one(fv)
		}
	}
}

// Canon returns the value a conforming decoder yields for v: fixed strings trimmed on their
// padded side; length-of and checksum fields replaced by their wire values (filled by the
// reference encoder via wire); everything else unchanged.
func Canon(p *Program, k *Packet, v Val, wire func(path string, f *Field) (uint64, bool), path string) Val {
	out := Val{F: make([]Val, len(k.Fields)), T: v.T}
	for i, f := range k.Fields {
		fp := path + "." + f.Name
		one := func(x Val, ip string) Val {
			switch f.Kind {
			case KFixed:
				pad, left := p.PadFor(f)
				return Val{S: Trim(x.S, pad, left)}
			case KLen, KSum:
				if w, ok := wire(ip, f); ok {
					return Val{U: w}
				}
				return x
			case KObj:
				return Canon(p, p.PacketByName(f.Ref), x, wire, ip)
			case KInline:
				return Canon(p, f.Inline, x, wire, ip)
			case KMatch:
				return Canon(p, p.PacketByName(x.T), x, wire, ip)
			}
			return x
		}
		if f.Repeat {
			nv := Val{IsL: true}
			for j, it := range v.F[i].L {
				nv.L = append(nv.L, one(it, fmt.Sprintf("%s[%d]", fp, j)))
			}
			out.F[i] = nv
		} else {
			out.F[i] = one(v.F[i], fp)
		}
	}
	return out
}

// Trim strips pad bytes from the padded side.
func Trim(b []byte, pad byte, left bool) []byte {
	if left {
		i := 0
		for i < len(b) && b[i] == pad {
			i++
		}
		return b[i:]
	}
	j := len(b)
	for j > 0 && b[j-1] == pad {
		j--
	}
	return b[:j]
}
