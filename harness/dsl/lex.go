package dsl

import (
	"fmt"
	"strings"
)

// LexTok is a token as the harness's own lexer (written from PacketDsl.g4's lexer rules) sees it.
type LexTok struct {
	Type string // KW, IDENT, DIGITS, STRING, PADCHAR, PADATTR, DOC, PUNCT, COMMENT
	Text string
	Line int
}

var literalToks = []string{
	// longest first where prefixes overlap
	"@calculatedFrom(", "@lengthOf(", "@tag(", "zchar[", "char[]", "char[",
	"{", "}", "=", "(", ")", "[", "]", ":", ",", ";",
}

var keywords = map[string]bool{"options": true, "true": true, "false": true, "string": true, "as": true,
	"char": true, "uint8": true, "u8": true, "uint16": true, "u16": true, "uint32": true, "u32": true, "uint64": true, "u64": true,
	"int8": true, "i8": true, "int16": true, "i16": true, "int32": true, "i32": true, "int64": true, "i64": true,
	"float32": true, "f32": true, "float64": true, "f64": true,
	"root": true, "packet": true, "repeat": true, "MetaData": true, "match": true}

// IsKeyword reports whether s lexes as a keyword rather than IDENTIFIER.
func IsKeyword(s string) bool { return keywords[s] }

// Lex tokenizes text; comments are returned as COMMENT tokens. An error means the text is not
// lexically valid.
func Lex(text string) ([]LexTok, error) {
	var out []LexTok
	line := 1
	i := 0
	n := len(text)
outer:
	for i < n {
		c := text[i]
		switch {
		case c == ' ' || c == '\t' || c == '\r':
			i++
			continue
		case c == '\n':
			line++
			i++
			continue
		}
		if strings.HasPrefix(text[i:], "//") {
			j := i
			for j < n && text[j] != '\n' && text[j] != '\r' {
				j++
			}
			out = append(out, LexTok{"COMMENT", text[i:j], line})
			i = j
			continue
		}
		// candidates: longest match wins (ANTLR rule), literals beat IDENTIFIER on ties
		best, btype := 0, ""
		for _, l := range literalToks {
			if strings.HasPrefix(text[i:], l) && len(l) > best {
				best, btype = len(l), "PUNCT"
			}
		}
		for _, pa := range []string{"@leftPad", "@rightPad"} {
			if strings.HasPrefix(text[i:], pa) && len(pa) > best {
				best, btype = len(pa), "PADATTR"
			}
		}
		for _, pc := range []string{"'0'", "' '", "'\\x00'"} {
			if strings.HasPrefix(text[i:], pc) && len(pc) > best {
				best, btype = len(pc), "PADCHAR"
			}
		}
		if isIdentByte(c) && !(c >= '0' && c <= '9') {
			j := i
			for j < n && isIdentByte(text[j]) {
				j++
			}
			if j-i > best || (j-i == best && btype == "") {
				best = j - i
				if keywords[text[i:j]] {
					btype = "KW"
				} else {
					btype = "IDENT"
				}
			}
		}
		if c >= '0' && c <= '9' {
			j := i
			for j < n && text[j] >= '0' && text[j] <= '9' {
				j++
			}
			if j-i > best {
				best, btype = j-i, "DIGITS"
			}
		}
		if c == '"' {
			j := i + 1
			for j < n {
				if text[j] == '\\' && j+1 < n {
					j += 2
					continue
				}
				if text[j] == '"' || text[j] == '\n' || text[j] == '\r' || text[j] == '\\' {
					break
				}
				j++
			}
			if j < n && text[j] == '"' && j+1-i > best {
				best, btype = j+1-i, "STRING"
			}
		}
		if c == '`' {
			j := strings.IndexByte(text[i+1:], '`')
			if j >= 0 && j+2 > best {
				best, btype = j+2, "DOC"
			}
		}
		if best == 0 {
			return out, fmt.Errorf("line %d: cannot lex at %q", line, text[i:min(n, i+10)])
		}
		tt := text[i : i+best]
		out = append(out, LexTok{btype, tt, line})
		line += strings.Count(tt, "\n")
		i += best
		continue outer
	}
	return out, nil
}

// Significant returns the non-comment tokens.
func Significant(ts []LexTok) []LexTok {
	var o []LexTok
	for _, t := range ts {
		if t.Type != "COMMENT" {
			o = append(o, t)
		}
	}
	return o
}

// Comments returns the comment texts in order.
func Comments(ts []LexTok) []string {
	var o []string
	for _, t := range ts {
		if t.Type == "COMMENT" {
			o = append(o, t.Text)
		}
	}
	return o
}

// ToToks converts a lexed text into layout tokens with comments attached the way C10 fixes
// them: a comment after a token on the same line trails that token; a comment on a line of
// its own precedes the next token.
func ToToks(ts []LexTok) (toks []Tok, tailComments []string) {
	var pending []string
	for _, t := range ts {
		if t.Type == "COMMENT" {
			body := strings.TrimPrefix(t.Text, "//")
			if len(toks) > 0 && lastLine(toks, ts, t) {
				k := &toks[len(toks)-1]
				if !k.HasTr && len(pending) == 0 {
					k.HasTr = true
					k.Trail = body
					continue
				}
			}
			pending = append(pending, body)
			continue
		}
		toks = append(toks, Tok{Text: t.Text, Pre: pending, Indent: t.Line})
		pending = nil
	}
	return toks, pending
}

// lastLine: is comment c on the line where the previous significant token ended?
func lastLine(toks []Tok, ts []LexTok, c LexTok) bool {
	// Tok.Indent temporarily carries the start line of the token (ToToks only)
	prev := toks[len(toks)-1]
	endLine := prev.Indent + strings.Count(prev.Text, "\n")
	return endLine == c.Line
}
