package dsl

import (
	"fmt"
	"os"
	"strings"

	"github.com/iancoleman/strcase"
	"pgregory.net/rapid"
)

// reserved holds, lower-cased and with '_' removed, every word a generated identifier must not
// collide with after any of the generators' case conversions: target-language keywords and
// symbols of the runtimes / emitted scaffolding, modules of the Python standard library that the
// interpreter, unittest or the harness driver import (a packet JSON becomes json.py on the module path).
var reserved = map[string]bool{}

func init() {
	words := `
break default func interface select case defer go map struct chan else goto package switch const fallthrough if range type continue for import return var
as async await crate dyn enum extern false fn impl in let loop match mod move mut pub ref self static super trait true unsafe use where while abstract become box do final macro override priv typeof unsized virtual yield try union
assert boolean byte catch char class double extends finally float implements instanceof int long native new null private protected public short strictfp synchronized this throw throws transient void volatile
and def del elif except exec from global is lambda nonlocal not or pass print raise with none
alignas alignof asm auto bitand bitor bool compl concept constexpr consteval constinit delete explicit export friend inline mutable namespace noexcept nullptr operator register requires signed sizeof template typedef typeid typename unsigned using wchar
end function local nil repeat then until
buf buffer bytebuf bytes size len i val err p service cs checktype other original decoded msg codec t obj instance string list vec some option result fields tree subtree offset pinfo base proto field packet root options metadata
encode decode equals tostring hashcode getclass init eq std string vector object main test tests data key value name type id ok error errors fmt binary count index item items idx get set put add remove create register
json http uuid time site`
	for _, w := range strings.Fields(words) {
		reserved[w] = true
	}
}

func norm(s string) string { return strings.ToLower(strings.ReplaceAll(s, "_", "")) }

var consonants = []string{"b", "d", "f", "g", "h", "k", "l", "m", "n", "p", "r", "s", "t", "v", "z"}
var vowels = []string{"a", "e", "i", "o", "u"}

// Namer hands out identifiers that are unique modulo case conversion and not reserved.
type Namer struct {
	used map[string]bool
}

// NewNamer creates a Namer.
func NewNamer() *Namer { return &Namer{used: map[string]bool{}} }

func word(t *rapid.T, label string) string {
	n := rapid.IntRange(2, 3).Draw(t, label+"_syl")
	var b strings.Builder
	for i := 0; i < n; i++ {
		b.WriteString(rapid.SampledFrom(consonants).Draw(t, label+"_c"))
		b.WriteString(rapid.SampledFrom(vowels).Draw(t, label+"_v"))
	}
	return b.String()
}

func title(s string) string { return strings.ToUpper(s[:1]) + s[1:] }

// Shape is an identifier shape.
type Shape int

const (
	ShUpperCamel Shape = iota // MsgType  (canonical: fixpoint of ToCamel, distinct snake/lowerCamel)
	ShLowerCamel              // msgType
	ShSnake                   // msg_type
	ShAllCaps                 // MSGTYPE
	ShAcronym                 // ClOrdID
	ShDigit                   // Msg2Type
	ShUnderscore              // _msgType / Msg_Type
)

// Name draws a fresh identifier of the given shape.
func (nm *Namer) Name(t *rapid.T, label string, shape Shape) string {
	for try := 0; ; try++ {
		w1, w2 := word(t, label), ""
		two := rapid.IntRange(0, 2).Draw(t, label+"_two") > 0
		if two || shape != ShUpperCamel {
			w2 = word(t, label+"2")
		}
		var s string
		switch shape {
		case ShUpperCamel:
			s = title(w1) + title0(w2)
		case ShLowerCamel:
			s = w1 + title0(w2)
		case ShSnake:
			s = w1 + "_" + w2
		case ShAllCaps:
			s = strings.ToUpper(w1 + w2)
		case ShAcronym:
			s = title(w1) + title(w2) + "ID"
		case ShDigit:
			s = title(w1) + fmt.Sprint(rapid.IntRange(0, 9).Draw(t, label+"_d")) + title0(w2)
		case ShUnderscore:
			s = title(w1) + "_" + title(w2)
		}
		if shape == ShAllCaps && rapid.IntRange(0, 3).Draw(t, label+"_initialism") == 0 {
			// well-known initialisms: case-conversion libraries treat them specially when configured to
			s = rapid.SampledFrom([]string{"ID", "URL", "IP", "UID", "HTTP", "API", "UUID", "JSON"}).Draw(t, label+"_init")
		}
		if try > 20 {
			s = s + "Q" + fmt.Sprint(len(nm.used))
		}
		k := norm(s)
		if nm.used[k] || reserved[k] || IsKeyword(s) || (len(k) < 3 && shape != ShAllCaps) || len(k) < 2 {
			continue
		}
		if shape == ShUpperCamel && (strcase.ToCamel(s) != s || strcase.ToCamel(strcase.ToSnake(s)) != s || strcase.ToLowerCamel(s) == s) {
			continue
		}
		nm.used[k] = true
		return s
	}
}

func title0(s string) string {
	if s == "" {
		return ""
	}
	return title(s)
}

// GenCfg steers the program generator.
type GenCfg struct {
	// NoHuge: no values in the upper half of a two-byte prefix (tens of thousands of elements)
	NoHuge       bool
	MaxPackets   int
	MaxFields    int
	Shapes       bool            // non-canonical identifier shapes (C07)
	Avoid        map[string]bool // feature tags not to generate (known findings, per target set)
	NeedRoot     bool
	ForceOpts    *Opts // pin the options (systematic rows)
	KitchenSink  bool  // one packet with every allowed field kind, plain and repeated
	MinPackets   int
	NoAttrFields bool // no length-of / checksum
	WantLen      bool // force a length-of field in the root
	WantSum      bool // force a checksum field
	WantMatch    bool // force a match field
	Docs         bool // allow doc strings
	MetaShare    bool // several fields typed by one fixed-string MetaData entry (and an alias), one of them padded
	AnyOrder     bool // MetaData blocks may follow the packets that use them
	MoreEmpty bool // a third of the non-root packets have no fields (heartbeat-like payloads)
	// KeywordNames: some field names are reserved words of a target language (From, In, Class ...)
	KeywordNames bool
	// PostProgram edits the drawn program before it is returned (property-specific shapes)
	PostProgram func(p *Program) `json:"-"`
}

func (c GenCfg) avoid(tag string) bool { return c.Avoid != nil && c.Avoid[tag] }

var intTypes = []string{"u8", "u16", "u32", "u64", "i8", "i16", "i32", "i64"}
var uintTypes = []string{"u8", "u16", "u32", "u64"}
var scalarTypes = []string{"u8", "u16", "u32", "u64", "i8", "i16", "i32", "i64", "f32", "f64", "char"}
var prefixTypes = []string{"", "u8", "u16", "u32", "u64"}
var padChars = []string{"'0'", "' '", "'\\x00'"}

// GenOpts draws an options block.
func GenOpts(t *rapid.T, cfg GenCfg) Opts {
	if cfg.ForceOpts != nil {
		return *cfg.ForceOpts
	}
	o := Opts{JavaPackage: "com.finproto.gen", GoPackage: "genpkg", GoModule: "example.com/genmod/genpkg"}
	o.LittleEndian = rapid.SampledFrom([]string{"", "true", "false", "true"}).Draw(t, "le")
	o.StrPrefix = rapid.SampledFrom(prefixTypes).Draw(t, "sp")
	o.ArrPrefix = rapid.SampledFrom(prefixTypes).Draw(t, "ap")
	if !cfg.avoid("opt:pad") && rapid.IntRange(0, 3).Draw(t, "padopt") == 0 {
		o.PadLeft = rapid.SampledFrom([]string{"", "true", "false"}).Draw(t, "padleft")
		pcs := []string{"", "'0'", "' '"}
		if !cfg.avoid("opt:padchar=nul") {
			pcs = append(pcs, "'\\x00'")
		}
		o.PadChar = rapid.SampledFrom(pcs).Draw(t, "padchar")
	}
	for _, x := range []struct {
		v   *string
		tag string
	}{{&o.StrPrefix, "opt:sp="}, {&o.ArrPrefix, "opt:ap="}} {
		eff := *x.v
		if eff == "" {
			eff = "u16"
		}
		if cfg.avoid(x.tag + eff) {
			*x.v = ""
		}
	}
	return o
}

type genState struct {
	t     *rapid.T
	cfg   GenCfg
	nm    *Namer
	prog  *Program
	metas []MetaEntry
	// shareKeys: every packet's match uses the same key-field name, key type and match-field
	// name (names are scoped by packet; whatever a generator derives from them must be too)
	shareKeys                bool
	keyName, keyType, mfName string
}

var shapeNames = []string{"", "lowercamel", "snake", "allcaps", "acronym", "digit", "underscore"}

func (g *genState) shape(label string) Shape {
	if !g.cfg.Shapes || g.cfg.avoid("shape:field") {
		return ShUpperCamel
	}
	var ok []Shape
	for i := 0; i <= 6; i++ {
		if i == 0 || !g.cfg.avoid("shape:field:"+shapeNames[i]) {
			ok = append(ok, Shape(i))
		}
	}
	return ok[rapid.IntRange(0, len(ok)-1).Draw(g.t, label+"_shape")]
}

func (g *genState) doc(label string) string {
	if !g.cfg.Docs || rapid.IntRange(0, 3).Draw(g.t, label+"_hasdoc") != 0 {
		return ""
	}
	docs := []string{"doc", "消息类型", "a b  c", "x,y;z{}", "// not a comment", "'q' \"dq\"", "100% %s", "tab\tinside"}
	if !g.cfg.avoid("doc:multiline") {
		docs = append(docs, "line1\nline2", "first\n    indented\n\nafter blank", "a \"quote\nb // no comment\n", "\nleading break", "tab\n\tline")
	}
	return rapid.SampledFrom(docs).Draw(g.t, label+"_doc")
}

func (g *genState) pad(label string) *Pad {
	if g.cfg.avoid("pad") || rapid.IntRange(0, 2).Draw(g.t, label+"_haspad") != 0 {
		return nil
	}
	chars := []string{"'0'", "' '"}
	if !g.cfg.avoid("pad:char='\\x00'") {
		chars = append(chars, "'\\x00'")
	}
	if !g.cfg.avoid("pad:noarg") {
		chars = append(chars, "")
	}
	return &Pad{Left: rapid.Bool().Draw(g.t, label+"_padleft"), Char: rapid.SampledFrom(chars).Draw(g.t, label+"_padch")}
}

// valueField draws a scalar / fixed / dyn field (the kinds that may also come from MetaData).
func (g *genState) valueField(label string, name string, inInline bool) *Field {
	f := &Field{Name: name}
	kinds := []Kind{KScalar, KScalar, KFixed, KDyn}
	f.Kind = rapid.SampledFrom(kinds).Draw(g.t, label+"_kind")
	switch f.Kind {
	case KScalar:
		var ts []string
		for _, s := range scalarTypes {
			if !g.cfg.avoid("scalar:" + s) {
				ts = append(ts, s)
			}
		}
		f.Type = rapid.SampledFrom(ts).Draw(g.t, label+"_type")
	case KFixed:
		f.N = rapid.SampledFrom([]int{1, 2, 3, 4, 5, 8, 10, 16, 33}).Draw(g.t, label+"_n")
		if !g.cfg.avoid("zchar") && rapid.IntRange(0, 3).Draw(g.t, label+"_z") == 0 {
			f.Z = true
			if !inInline && !g.cfg.avoid("zchar:pad") && rapid.IntRange(0, 3).Draw(g.t, label+"_zpad") == 0 {
				f.Pad = g.pad(label)
			}
		} else if !inInline {
			f.Pad = g.pad(label)
		}
	}
	if !g.cfg.avoid("repeat") && rapid.IntRange(0, 2).Draw(g.t, label+"_rep") == 0 {
		f.Repeat = true
		if g.cfg.avoid("repeat:"+f.Kind.String()) || (f.Kind == KScalar && g.cfg.avoid("repeat:scalar:"+f.Type)) {
			f.Repeat = false
		}
	}
	f.Doc = g.doc(label)
	return f
}

// GenProgram draws a well-formed program.
func GenProgram(t *rapid.T, cfg GenCfg) *Program {
	if cfg.MaxPackets == 0 {
		cfg.MaxPackets = 5
	}
	if cfg.MaxFields == 0 {
		cfg.MaxFields = 6
	}
	g := &genState{t: t, cfg: cfg, nm: NewNamer(), prog: &Program{}}
	p := g.prog
	p.Opts = GenOpts(t, cfg)
	g.shareKeys = rapid.IntRange(0, 3).Draw(t, "share_key_names") == 0
	np := rapid.IntRange(max(1, cfg.MinPackets), cfg.MaxPackets).Draw(t, "npackets")
	names := make([]string, np)
	for i := range names {
		names[i] = g.nm.Name(t, fmt.Sprintf("pkt%d", i), ShUpperCamel)
		if cfg.Shapes && !cfg.avoid("shape:packet") && (rapid.IntRange(0, 3).Draw(t, "pktshape") == 0 || os.Getenv("VERIF_PKT_SHAPES") != "") {
			// packet names of other shapes are a C07 matter
			g.nm.used[norm(names[i])] = false
			var ok []Shape
			for s := 1; s <= 6; s++ {
				if !cfg.avoid("shape:packet:" + shapeNames[s]) {
					ok = append(ok, Shape(s))
				}
			}
			if len(ok) > 0 {
				names[i] = g.nm.Name(t, fmt.Sprintf("pkt%d", i), ok[rapid.IntRange(0, len(ok)-1).Draw(t, "pktshapekind")])
			} else {
				g.nm.used[norm(names[i])] = true
			}
		}
	}
	// MetaData
	if !cfg.avoid("meta") && rapid.IntRange(0, 2).Draw(t, "hasmeta") == 0 {
		mb := &MetaBlock{Name: g.nm.Name(t, "metablock", ShUpperCamel)}
		ne := rapid.IntRange(1, 4).Draw(t, "nmeta")
		for i := 0; i < ne; i++ {
			lbl := fmt.Sprintf("meta%d", i)
			e := MetaEntry{Name: g.nm.Name(t, lbl, ShUpperCamel), Doc: "d" + fmt.Sprint(i)}
			if i > 0 && !cfg.avoid("meta:alias") && rapid.IntRange(0, 3).Draw(t, lbl+"_alias") == 0 {
				src := mb.Entries[rapid.IntRange(0, i-1).Draw(t, lbl+"_src")]
				e.Alias, e.Kind, e.Type, e.N, e.Z = src.Name, src.Kind, src.Type, src.N, src.Z
			} else {
				f := g.valueField(lbl, e.Name, true)
				e.Kind, e.Type, e.N, e.Z = f.Kind, f.Type, f.N, f.Z
			}
			mb.Entries = append(mb.Entries, e)
		}
		p.Metas = append(p.Metas, mb)
		g.metas = mb.Entries
	}
	if cfg.AnyOrder && len(p.Metas) > 0 && rapid.Bool().Draw(t, "meta_last") {
		p.MetaLast = true
	}
	rootIdx := rapid.IntRange(0, np-1).Draw(t, "root")
	// packet i may reference packets j != i such that the graph stays acyclic: order by a random rank
	rank := rapid.Permutation(seq(np)).Draw(t, "rank")
	// the root must not be referenced as payload of itself; give it the top rank
	for i, r := range rank {
		if r == np-1 {
			rank[i], rank[rootIdx] = rank[rootIdx], rank[i]
			break
		}
	}
	for i := 0; i < np; i++ {
		k := &Packet{Name: names[i], Root: i == rootIdx}
		p.Packets = append(p.Packets, k)
	}
	if cfg.MetaShare && !cfg.avoid("meta") {
		mb := &MetaBlock{Name: g.nm.Name(t, "sharedblock", ShUpperCamel)}
		e := MetaEntry{Name: g.nm.Name(t, "shared", ShUpperCamel), Kind: KFixed, N: rapid.SampledFrom([]int{2, 4, 8}).Draw(t, "shared_n"), Z: rapid.Bool().Draw(t, "shared_z"), Doc: "s"}
		a := MetaEntry{Name: g.nm.Name(t, "sharedalias", ShUpperCamel), Kind: KFixed, N: e.N, Z: e.Z, Alias: e.Name, Doc: "a"}
		mb.Entries = []MetaEntry{e, a}
		p.Metas = append(p.Metas, mb)
		root := p.Packets[rootIdx]
		n := rapid.IntRange(2, 4).Draw(t, "shared_nf")
		padded := rapid.IntRange(0, n-1).Draw(t, "shared_padded")
		for i := 0; i < n; i++ {
			src := e
			if rapid.IntRange(0, 2).Draw(t, fmt.Sprintf("shared_alias%d", i)) == 0 {
				src = a
			}
			f := &Field{Kind: KFixed, N: src.N, Z: src.Z, Via: src.Name, Name: g.fname(fmt.Sprintf("shared_f%d", i))}
			if i == padded {
				f.Pad = &Pad{Left: rapid.Bool().Draw(t, "shared_padleft"), Char: rapid.SampledFrom([]string{"'0'", "' '"}).Draw(t, "shared_padch")}
			}
			root.Fields = append(root.Fields, f)
		}
	}
	for i := 0; i < np; i++ {
		var lower []string
		for j := 0; j < np; j++ {
			if rank[j] < rank[i] {
				lower = append(lower, names[j])
			}
		}
		g.fillPacket(p.Packets[i], fmt.Sprintf("p%d", i), lower)
	}
	// the generators' self-tests sample the FIRST pair of a table: let it be the odd one sometimes
	// (an empty payload packet)
	for _, k := range p.Packets {
		for _, f := range k.Fields {
			if f.Kind != KMatch || len(f.Pairs) < 2 {
				continue
			}
			for i := 1; i < len(f.Pairs); i++ {
				if tp := p.PacketByName(f.Pairs[i].Target); tp != nil && len(tp.Fields) == 0 && rapid.IntRange(0, 2).Draw(t, "empty_first_"+f.Name) == 0 {
					f.Pairs[0], f.Pairs[i] = f.Pairs[i], f.Pairs[0]
					break
				}
			}
		}
	}
	if cfg.PostProgram != nil {
		cfg.PostProgram(p)
	}
	return p
}

func seq(n int) []int {
	s := make([]int, n)
	for i := range s {
		s[i] = i
	}
	return s
}

// keywordNames are identifiers of the DSL that are reserved words (in some letter case) of a
// target language. They are legal field names; whether the emitted code builds with them is a
// C07 matter, so only the properties that compare emitted text use them (GenCfg.KeywordNames).
var keywordNames = []string{"From", "In", "Class", "Pass", "Type", "Func", "Default", "Self", "Return", "Import", "Lambda",
	"End", "Then", "Local", "Nil", "Struct", "New", "Delete", "This", "Package", "Go", "Map", "Range", "Select", "Fn", "Impl",
	"Mod", "Pub", "Use", "Loop", "Move", "Ref", "Trait", "Async", "Enum", "Int", "Long", "Short", "Final", "Static", "Not", "Or", "And"}

func (g *genState) fname(label string) string {
	if (g.cfg.KeywordNames && !g.cfg.avoid("names:keyword") || os.Getenv("VERIF_KEYWORDS") != "") && rapid.IntRange(0, 7).Draw(g.t, label+"_kw") == 0 {
		w := rapid.SampledFrom(keywordNames).Draw(g.t, label+"_kwname")
		if !g.nm.used[norm(w)] {
			g.nm.used[norm(w)] = true
			return w
		}
	}
	return g.nm.Name(g.t, label, g.shape(label))
}

func (g *genState) fillPacket(k *Packet, label string, refs []string) {
	t, cfg := g.t, g.cfg
	nm := NewNamer() // field names are scoped to the packet but we keep them unique program-wide for simplicity
	_ = nm
	nf := rapid.IntRange(0, cfg.MaxFields).Draw(t, label+"_nf")
	if !k.Root && cfg.MoreEmpty && rapid.IntRange(0, 2).Draw(t, label+"_empty") == 0 {
		nf = 0
	}
	if k.Root && nf == 0 {
		nf = 1
	}
	if cfg.KitchenSink && k.Root {
		nf = 0 // built below
	}
	add := func(f *Field) { k.Fields = append(k.Fields, f) }
	wantMatch := len(refs) > 0 && !cfg.avoid("match") && (cfg.WantMatch && k.Root || rapid.IntRange(0, 2).Draw(t, label+"_hasmatch") == 0)
	wantLen := k.Root && !cfg.NoAttrFields && !cfg.avoid("len") && (cfg.WantLen || rapid.IntRange(0, 2).Draw(t, label+"_haslen") == 0)
	wantSum := !cfg.NoAttrFields && !cfg.avoid("sum") && (cfg.WantSum && k.Root || rapid.IntRange(0, 4).Draw(t, label+"_hassum") == 0)
	if !k.Root && cfg.avoid("sum:nested") {
		wantSum = false
	}
	var plain []*Field
	if cfg.KitchenSink && k.Root {
		plain = g.kitchenSink(label, refs)
	} else {
		for i := 0; i < nf; i++ {
			plain = append(plain, g.anyField(fmt.Sprintf("%s_f%d", label, i), refs, 0))
		}
	}
	// match (with its key before it), length-of (before its target), checksum (usually last)
	var matchF, keyF, lenF *Field
	if wantMatch {
		keyF, matchF = g.matchFields(label, refs)
	}
	if wantLen {
		var target *Field
		if matchF != nil && !cfg.avoid("len:target=match") && rapid.IntRange(0, 3).Draw(t, label+"_lentgt") != 0 {
			target = matchF
		} else if !cfg.avoid("len:target=obj") || !cfg.avoid("len:target=inline") {
			// an object field declared after the length field
			var cands []*Field
			for _, f := range plain {
				if (f.Kind == KObj && !cfg.avoid("len:target=obj") || f.Kind == KInline && !cfg.avoid("len:target=inline")) && !f.Repeat {
					cands = append(cands, f)
				}
			}
			if len(cands) > 0 {
				target = cands[rapid.IntRange(0, len(cands)-1).Draw(t, label+"_lenobj")]
			} else if matchF != nil && !cfg.avoid("len:target=match") {
				target = matchF
			}
		}
		if target != nil {
			var ts []string
			for _, u := range uintTypes {
				if !cfg.avoid("len:" + u) {
					ts = append(ts, u)
				}
			}
			if len(ts) > 0 {
				lenF = &Field{Kind: KLen, Name: g.fname(label + "_len"), Type: rapid.SampledFrom(ts).Draw(t, label+"_lentype"),
					Target: target.Name, AttrPrefixed: rapid.Bool().Draw(t, label+"_lenpre"), Doc: g.doc(label + "_len")}
				g.typeFromMeta(label+"_len", lenF)
			}
		}
	}
	// assemble: shuffle plain, then insert key, len, match respecting order constraints
	out := plain
	if matchF != nil {
		// key somewhere, match after key
		ki := rapid.IntRange(0, len(out)).Draw(t, label+"_keypos")
		out = insert(out, ki, keyF)
		mi := rapid.IntRange(ki+1, len(out)).Draw(t, label+"_matchpos")
		out = insert(out, mi, matchF)
	}
	if lenF != nil {
		ti := indexOf(out, lenF.Target)
		li := rapid.IntRange(0, ti).Draw(t, label+"_lenpos")
		out = insert(out, li, lenF)
	}
	if wantSum {
		var ts []string
		for _, u := range intTypes {
			if !cfg.avoid("sum:" + u) {
				ts = append(ts, u)
			}
		}
		if len(ts) > 0 {
			sf := &Field{Kind: KSum, Name: g.fname(label + "_sum"), Type: rapid.SampledFrom(ts).Draw(t, label+"_sumtype"),
				AttrPrefixed: rapid.Bool().Draw(t, label+"_sumpre"), Doc: g.doc(label + "_sum")}
			// one algorithm name per value type: a registered service has one result type
			sf.Alg = g.algName(label+"_sum", sf.Type)
			g.typeFromMeta(label+"_sum", sf)
			pos := len(out)
			if rapid.IntRange(0, 3).Draw(t, label+"_sumlast") == 0 {
				pos = rapid.IntRange(0, len(out)).Draw(t, label+"_sumpos")
				// never between a length field and ... anywhere is fine
			}
			out = insert(out, pos, sf)
			// sometimes a second checksum field of another width (hence another algorithm name)
			if len(ts) > 1 && !cfg.avoid("sum:multi") && rapid.IntRange(0, 3).Draw(t, label+"_sum2") == 0 {
				var ts2 []string
				for _, u := range ts {
					if u != sf.Type {
						ts2 = append(ts2, u)
					}
				}
				sf2 := &Field{Kind: KSum, Name: g.fname(label + "_sum2"), Type: rapid.SampledFrom(ts2).Draw(t, label+"_sum2type"), AttrPrefixed: rapid.Bool().Draw(t, label+"_sum2pre")}
				sf2.Alg = g.algName(label+"_sum2", sf2.Type)
				if !cfg.avoid("sum:shared-alg") && rapid.IntRange(0, 2).Draw(t, label+"_sum2shared") == 0 {
					// one algorithm name on two fields of different width: a registered service has
					// one result type, so this name is never registered by the drivers
					sf.Alg, sf2.Alg = "CKMIXED", "CKMIXED"
				}
				out = insert(out, rapid.IntRange(0, len(out)).Draw(t, label+"_sum2pos"), sf2)
			}
		}
	}
	for _, f := range out {
		add(f)
	}
}

func insert(s []*Field, i int, f *Field) []*Field {
	s = append(s, nil)
	copy(s[i+1:], s[i:])
	s[i] = f
	return s
}

func indexOf(s []*Field, name string) int {
	for i, f := range s {
		if f.Name == name {
			return i
		}
	}
	return -1
}

func (g *genState) anyField(label string, refs []string, depth int) *Field {
	t, cfg := g.t, g.cfg
	kinds := []Kind{KScalar, KScalar, KFixed, KDyn}
	if len(refs) > 0 && !cfg.avoid("obj") {
		kinds = append(kinds, KObj, KObj)
	}
	if depth < 2 && !cfg.avoid("inline") {
		kinds = append(kinds, KInline)
	}
	if len(g.metas) > 0 && depth == 0 {
		kinds = append(kinds, KKindVia)
	}
	k := rapid.SampledFrom(kinds).Draw(t, label+"_k")
	switch k {
	case KObj:
		ref := rapid.SampledFrom(refs).Draw(t, label+"_ref")
		f := &Field{Kind: KObj, Ref: ref, Name: ref}
		if !cfg.avoid("obj:named") && rapid.IntRange(0, 1).Draw(t, label+"_named") == 1 {
			f.Name = g.fname(label)
		} else if g.nm.used["objfield:"+ref] {
			// a second unnamed field of the same type would be a duplicate field name
			f.Name = g.fname(label)
			if cfg.avoid("obj:named") {
				return g.valueField(label, g.fname(label+"v"), depth > 0)
			}
		}
		g.nm.used["objfield:"+f.Name] = true
		if !cfg.avoid("repeat:obj") && rapid.IntRange(0, 2).Draw(t, label+"_rep") == 0 {
			f.Repeat = true
		}
		f.Doc = g.doc(label)
		return f
	case KInline:
		name := g.nm.Name(t, label+"_inl", ShUpperCamel)
		inl := &Packet{Name: name}
		n := rapid.IntRange(1, 3).Draw(t, label+"_inf")
		for i := 0; i < n; i++ {
			var sf *Field
			if depth+1 < 2 && !cfg.avoid("inline:nested") && rapid.IntRange(0, 2).Draw(t, fmt.Sprintf("%s_in%d_nest", label, i)) == 0 {
				sf = g.anyField(fmt.Sprintf("%s_in%d", label, i), refsIf(!cfg.avoid("inline:obj"), refs), depth+1)
			} else {
				sf = g.valueField(fmt.Sprintf("%s_in%d", label, i), g.fname(fmt.Sprintf("%s_in%d", label, i)), true)
			}
			inl.Fields = append(inl.Fields, sf)
		}
		if !cfg.NoAttrFields && !cfg.avoid("sum") && !cfg.avoid("sum:nested") && !cfg.avoid("sum:inline") && rapid.IntRange(0, 7).Draw(t, label+"_inl_sum") == 0 {
			// a checksum field inside an inline object (only the spelling behind the name exists there)
			var ts []string
			for _, u := range intTypes {
				if !cfg.avoid("sum:" + u) {
					ts = append(ts, u)
				}
			}
			if len(ts) > 0 {
				sf := &Field{Kind: KSum, Name: g.fname(label + "_inlsum"), Type: rapid.SampledFrom(ts).Draw(t, label+"_inlsumtype")}
				sf.Alg = g.algName(label+"_inlsum", sf.Type)
				g.typeFromMeta(label+"_inlsum", sf)
				inl.Fields = append(inl.Fields, sf)
			}
		}
		f := &Field{Kind: KInline, Name: name, Inline: inl}
		if !cfg.avoid("repeat:inline") && rapid.IntRange(0, 2).Draw(t, label+"_rep") == 0 {
			f.Repeat = true
		}
		return f
	case KKindVia:
		e := g.metas[rapid.IntRange(0, len(g.metas)-1).Draw(t, label+"_me")]
		f := &Field{Kind: e.Kind, Type: e.Type, N: e.N, Z: e.Z, Via: e.Name, Name: e.Name}
		if g.nm.used["viafield:"+e.Name] || rapid.Bool().Draw(t, label+"_vianamed") {
			f.Name = g.fname(label)
		}
		g.nm.used["viafield:"+f.Name] = true
		if !cfg.avoid("repeat") && !cfg.avoid("repeat:"+f.Kind.String()) && rapid.IntRange(0, 3).Draw(t, label+"_rep") == 0 {
			f.Repeat = true
		}
		if f.Kind == KFixed && !cfg.avoid("via:pad") {
			// also on zchar entries: a declared attribute overrides the implicit NUL padding of
			// this field only
			f.Pad = g.pad(label)
		}
		return f
	default:
		return g.valueField(label, g.fname(label), depth > 0)
	}
}

// algName draws the name of the checksum algorithm of a field of type typ: one name per value
// type (a registered service has one result type), in several spellings (names are case
// sensitive and not restricted to capitals).
func (g *genState) algName(label, typ string) string {
	switch rapid.IntRange(0, 3).Draw(g.t, label+"_algname") {
	case 0:
		return "Ck" + typ + "Sum"
	case 1:
		return "crc-" + typ
	}
	return "CK" + strings.ToUpper(typ)
}

// typeFromMeta lets a length-of or checksum field take its type from a MetaData entry of its
// own name (`Name @calculatedFrom("x"),` without a type in front).
func (g *genState) typeFromMeta(label string, f *Field) {
	if g.cfg.avoid("meta") || g.cfg.avoid("attr:via") || rapid.IntRange(0, 3).Draw(g.t, label+"_typeless") != 0 {
		return
	}
	if len(g.prog.Metas) == 0 {
		g.prog.Metas = append(g.prog.Metas, &MetaBlock{Name: g.nm.Name(g.t, label+"_attrblock", ShUpperCamel)})
	}
	mb := g.prog.Metas[len(g.prog.Metas)-1]
	mb.Entries = append(mb.Entries, MetaEntry{Name: f.Name, Kind: KScalar, Type: f.Type, Doc: "t"})
	f.Via = f.Name
}

// KKindVia is a pseudo kind used only while drawing.
const KKindVia Kind = 100

func refsIf(ok bool, refs []string) []string {
	if ok {
		return refs
	}
	return nil
}

func (g *genState) kitchenSink(label string, refs []string) []*Field {
	var out []*Field
	t := g.t
	for _, s := range scalarTypes {
		if g.cfg.avoid("scalar:" + s) {
			continue
		}
		out = append(out, &Field{Kind: KScalar, Type: s, Name: g.fname(label + "_ks_" + s)})
		if !g.cfg.avoid("repeat:scalar:"+s) && !g.cfg.avoid("repeat") {
			out = append(out, &Field{Kind: KScalar, Type: s, Name: g.fname(label + "_ksr_" + s), Repeat: true})
		}
	}
	pads := []*Pad{nil}
	if !g.cfg.avoid("pad") {
		pads = append(pads, &Pad{Left: true, Char: "'0'"}, &Pad{Left: false, Char: "'0'"}, &Pad{Left: true, Char: "' '"})
		if !g.cfg.avoid("pad:char='\\x00'") {
			pads = append(pads, &Pad{Left: false, Char: "'\\x00'"}, &Pad{Left: true, Char: "'\\x00'"})
		}
		if !g.cfg.avoid("pad:noarg") {
			pads = append(pads, &Pad{Left: true, Char: ""})
		}
	}
	for i, pd := range pads {
		n := rapid.SampledFrom([]int{1, 3, 6, 12}).Draw(t, fmt.Sprintf("%s_ksn%d", label, i))
		out = append(out, &Field{Kind: KFixed, N: n, Pad: pd, Name: g.fname(fmt.Sprintf("%s_ksf%d", label, i))})
		if !g.cfg.avoid("repeat:fixed") && !g.cfg.avoid("repeat") {
			out = append(out, &Field{Kind: KFixed, N: n, Pad: pd, Name: g.fname(fmt.Sprintf("%s_ksfr%d", label, i)), Repeat: true})
		}
	}
	if !g.cfg.avoid("zchar") {
		out = append(out, &Field{Kind: KFixed, N: 5, Z: true, Name: g.fname(label + "_ksz")})
	}
	out = append(out, &Field{Kind: KDyn, Name: g.fname(label + "_ksd")})
	if !g.cfg.avoid("repeat:dyn") && !g.cfg.avoid("repeat") {
		out = append(out, &Field{Kind: KDyn, Name: g.fname(label + "_ksdr"), Repeat: true})
	}
	if len(refs) > 0 && !g.cfg.avoid("obj") {
		ref := refs[0]
		out = append(out, &Field{Kind: KObj, Ref: ref, Name: ref})
		if !g.cfg.avoid("repeat:obj") {
			nm := g.fname(label + "_ksor")
			if g.cfg.avoid("obj:named") {
				if len(refs) > 1 {
					out = append(out, &Field{Kind: KObj, Ref: refs[1], Name: refs[1], Repeat: true})
				}
			} else {
				out = append(out, &Field{Kind: KObj, Ref: ref, Name: nm, Repeat: true})
			}
		}
	}
	if !g.cfg.avoid("inline") {
		for r := 0; r < 2; r++ {
			if r == 1 && g.cfg.avoid("repeat:inline") {
				break
			}
			name := g.nm.Name(t, fmt.Sprintf("%s_ksi%d", label, r), ShUpperCamel)
			inl := &Packet{Name: name, Fields: []*Field{
				{Kind: KScalar, Type: "u16", Name: g.fname(fmt.Sprintf("%s_ksi%da", label, r))},
				{Kind: KDyn, Name: g.fname(fmt.Sprintf("%s_ksi%db", label, r))},
			}}
			out = append(out, &Field{Kind: KInline, Name: name, Inline: inl, Repeat: r == 1})
		}
	}
	perm := rapid.Permutation(seq(len(out))).Draw(t, label+"_ksperm")
	res := make([]*Field, len(out))
	for i, j := range perm {
		res[i] = out[j]
	}
	return res
}

// matchFields draws a key field and a match field over refs.
func (g *genState) matchFields(label string, refs []string) (*Field, *Field) {
	t, cfg := g.t, g.cfg
	key := &Field{Name: g.fname(label + "_key")}
	strKey := !cfg.avoid("match:strkey") && rapid.IntRange(0, 3).Draw(t, label+"_strkey") == 0
	if strKey {
		if !cfg.avoid("match:fixedkey") && rapid.Bool().Draw(t, label+"_fixedkey") {
			key.Kind, key.N = KFixed, rapid.SampledFrom([]int{2, 4, 8}).Draw(t, label+"_keyn")
			switch rapid.IntRange(0, 3).Draw(t, label+"_keypad") {
			case 1:
				if !cfg.avoid("zchar") {
					key.Z = true
				}
			case 2:
				if !cfg.avoid("pad") && !cfg.avoid("pad:char='\\x00'") {
					key.Pad = &Pad{Left: rapid.Bool().Draw(t, label+"_keypadleft"), Char: "'\\x00'"}
				}
			}
		} else {
			key.Kind = KDyn
		}
	} else {
		key.Kind = KScalar
		var ts []string
		for _, u := range intTypes {
			if !cfg.avoid("match:key=" + u) {
				ts = append(ts, u)
			}
		}
		key.Type = rapid.SampledFrom(ts).Draw(t, label+"_keytype")
		if g.shareKeys {
			if g.keyType == "" {
				g.keyType = key.Type
			}
			key.Type = g.keyType
		}
	}
	m := &Field{Kind: KMatch, Name: g.fname(label + "_match"), Key: key.Name}
	if g.shareKeys {
		if g.keyName == "" {
			g.keyName, g.mfName = key.Name, m.Name
		}
		key.Name, m.Name, m.Key = g.keyName, g.mfName, g.keyName
	}
	np := rapid.IntRange(1, 5).Draw(t, label+"_npairs")
	usedKeys := map[string]bool{}
	for i := 0; i < np; i++ {
		pl := fmt.Sprintf("%s_pair%d", label, i)
		pr := Pair{Target: rapid.SampledFrom(refs).Draw(t, pl+"_target")}
		nk := 1
		if !cfg.avoid("match:list") && rapid.IntRange(0, 2).Draw(t, pl+"_islist") == 0 {
			pr.List = true
			nk = rapid.SampledFrom([]int{1, 2, 3, 4, 5, 6, 7, 10, 15}).Draw(t, pl+"_nkeys")
		}
		// key lists that look like a range of consecutive numbers but are not written as one:
		// shuffled, or with the range's end points first and last and an outlier in between
		if !strKey && pr.List && nk >= 3 && nk <= 7 && rapid.IntRange(0, 1).Draw(t, pl+"_rangelike") == 0 {
			base := uint64(rapid.IntRange(1, 60).Draw(t, pl+"_rbase"))
			var ks []uint64
			for j := 0; j < nk; j++ {
				ks = append(ks, base+uint64(j))
			}
			if rapid.IntRange(0, 3).Draw(t, pl+"_rshuffle") == 0 {
				perm := rapid.Permutation(seq(nk)).Draw(t, pl+"_rperm")
				sh := make([]uint64, nk)
				for a, b := range perm {
					sh[a] = ks[b]
				}
				ks = sh
			} else {
				// [10, 50, 11, 12]: first and last span exactly len-1, one member lies outside
				out := base + uint64(nk) + uint64(rapid.IntRange(1, 40).Draw(t, pl+"_routlier"))
				mid := []uint64{out}
				for j := 1; j <= nk-3; j++ {
					mid = append(mid, base+uint64(j))
				}
				ks = append(append([]uint64{base}, mid...), base+uint64(nk)-1)
				if rapid.IntRange(0, 3).Draw(t, pl+"_rdesc") == 0 {
					ks[0], ks[len(ks)-1] = ks[len(ks)-1], ks[0]
				}
			}
			for _, v := range ks {
				if s := fmt.Sprint(v); !usedKeys[s] {
					usedKeys[s] = true
					pr.Keys = append(pr.Keys, s)
				}
			}
			nk = 0
		}
		for j := 0; j < nk; j++ {
			var ks string
			for try := 0; try < 50; try++ {
				if strKey {
					maxLen := 6
					if key.Kind == KFixed {
						maxLen = key.N
					}
					n := rapid.IntRange(1, maxLen).Draw(t, pl+"_klen")
					// a fixed-string key must survive trimming: no pad character ('0', blank) in it
					alphabet := "ABCDEFXYZ019,-.:;"
					if key.Kind == KFixed {
						alphabet = "ABCDEFXYZ19"
					}
					ks = "\"" + rapid.StringOfN(rapid.SampledFrom([]rune(alphabet)), n, n, -1).Draw(t, pl+"_kstr") + "\""
				} else {
					ks = fmt.Sprint(genKeyInt(t, key.Type, pl))
				}
				if !usedKeys[ks] {
					break
				}
				ks = ""
			}
			if ks == "" {
				continue
			}
			usedKeys[ks] = true
			pr.Keys = append(pr.Keys, ks)
		}
		if len(pr.Keys) > 0 {
			m.Pairs = append(m.Pairs, pr)
		}
	}
	if len(m.Pairs) == 0 {
		k := "1"
		if strKey {
			k = "\"A\""
		}
		m.Pairs = []Pair{{Keys: []string{k}, Target: refs[0]}}
	}
	return key, m
}

func genKeyInt(t *rapid.T, typ, label string) uint64 {
	// keys are written as unsigned decimal literals; signed key types only get non-negative keys
	hi := map[string]uint64{"u8": 255, "i8": 127, "u16": 65535, "i16": 32767, "u32": 4294967295, "i32": 2147483647,
		"u64": 1<<64 - 1, "i64": 1<<63 - 1}[typ]
	if rapid.IntRange(0, 3).Draw(t, label+"_big") == 0 {
		return rapid.SampledFrom([]uint64{0, hi, hi - 1, hi / 2}).Draw(t, label+"_kb")
	}
	m := uint64(100)
	if hi < m {
		m = hi
	}
	return rapid.Uint64Range(0, m).Draw(t, label+"_ki")
}

// AddSecondMatch adds a second key+match field pair to a packet that already has one, when
// some packet can be referenced.
func AddSecondMatch(t *rapid.T, p *Program) {
	for _, k := range p.Packets {
		var m *Field
		for _, f := range k.Fields {
			if f.Kind == KMatch {
				m = f
			}
		}
		if m == nil {
			continue
		}
		key := &Field{Kind: KScalar, Type: "u16", Name: m.Key + "Two"}
		m2 := &Field{Kind: KMatch, Name: m.Name + "Two", Key: key.Name}
		for i, pr := range m.Pairs {
			m2.Pairs = append(m2.Pairs, Pair{Keys: []string{fmt.Sprint(i + 1)}, Target: pr.Target})
		}
		// the second key directly after the first one (they may then share a source line)
		ki := indexOf(k.Fields, m.Key)
		k.Fields = insert(k.Fields, ki+1, key)
		k.Fields = append(k.Fields, m2)
		return
	}
}

// AddPlainLength gives the root packet, when it has no length-of field yet, a length-of field
// whose target is a plain member (string, char[n] or number) instead of an object or match
// field. The compiler accepts that; what the emitted codecs do with it is not examined here
// (only checks that compare emitted text use it).
func AddPlainLength(p *Program) bool {
	root := p.RootPacket()
	if root == nil {
		return false
	}
	for _, f := range root.Fields {
		if f.Kind == KLen {
			return false
		}
	}
	for i, f := range root.Fields {
		if f.Repeat || (f.Kind != KDyn && f.Kind != KFixed && f.Kind != KScalar) {
			continue
		}
		lf := &Field{Kind: KLen, Name: "Zqlen", Type: "u16", Target: f.Name}
		root.Fields = insert(root.Fields, i, lf)
		return true
	}
	return false
}

// AddInlineChain appends a chain root -> Mid (object member) -> inline object -> Leaf (object
// member): the leaf packet is named only inside an inline object of a packet the root refers to.
// AddMatchChain appends a chain root -> holder -> holder -> packet with a match field: the
// packets in between have no match field of their own, but hold (plainly and in a list) one that
// has. Whatever a generator decides per member "by looking at the member's packet" must look
// through such holders.
func AddMatchChain(p *Program) {
	root := p.RootPacket()
	if root == nil || p.PacketByName("Zqmleaf") != nil {
		return
	}
	leaf := &Packet{Name: "Zqmleaf", Fields: []*Field{{Kind: KScalar, Type: "u16", Name: "Zqmlv"}}}
	other := &Packet{Name: "Zqmother", Fields: []*Field{{Kind: KDyn, Name: "Zqmos"}}}
	mm := &Packet{Name: "Zqmatcher", Fields: []*Field{
		{Kind: KScalar, Type: "u8", Name: "Zqmkey"},
		{Kind: KMatch, Name: "Zqmbody", Key: "Zqmkey", Pairs: []Pair{{Keys: []string{"1"}, Target: "Zqmleaf"}, {Keys: []string{"2"}, Target: "Zqmother"}}},
	}}
	h2 := &Packet{Name: "Zqholdb", Fields: []*Field{{Kind: KScalar, Type: "u8", Name: "Zqhbv"}, {Kind: KObj, Ref: "Zqmatcher", Name: "Zqhbm"}}}
	h1 := &Packet{Name: "Zqholda", Fields: []*Field{{Kind: KObj, Ref: "Zqholdb", Name: "Zqhab"}, {Kind: KScalar, Type: "u16", Name: "Zqhav"}}}
	p.Packets = append(p.Packets, h1, h2, mm, leaf, other)
	root.Fields = append(root.Fields, &Field{Kind: KObj, Ref: "Zqholda", Name: "Zqha"}, &Field{Kind: KObj, Ref: "Zqholdb", Name: "Zqhbs", Repeat: true})
}

func AddInlineChain(p *Program) {
	root := p.RootPacket()
	if root == nil || p.PacketByName("Zqleaf") != nil {
		return
	}
	leaf := &Packet{Name: "Zqleaf", Fields: []*Field{{Kind: KScalar, Type: "u16", Name: "Zqlv"}}}
	inner := &Packet{Name: "Zqinner", Fields: []*Field{{Kind: KScalar, Type: "u8", Name: "Zqiv"}, {Kind: KObj, Ref: "Zqleaf", Name: "Zqlf"}}}
	mid := &Packet{Name: "Zqmid", Fields: []*Field{{Kind: KInline, Name: "Zqinner", Inline: inner}, {Kind: KScalar, Type: "u8", Name: "Zqmv"}}}
	p.Packets = append(p.Packets, mid, leaf)
	root.Fields = append(root.Fields, &Field{Kind: KObj, Ref: "Zqmid", Name: "Zqmd"})
}

// AddSecondMatchSameKey adds, to a packet that has a match field on an integer key, a second
// match field selected by the SAME key field; its table has the first table's keys but one and
// one key of its own. (Which of the two a codec honours is not the point: the model holds both.)
func AddSecondMatchSameKey(t *rapid.T, p *Program) bool {
	for _, k := range p.Packets {
		var m *Field
		for _, f := range k.Fields {
			if f.Kind == KMatch {
				m = f
			}
		}
		if m == nil {
			continue
		}
		kf := k.FieldByName(m.Key)
		if kf == nil || kf.Kind != KScalar {
			continue
		}
		m2 := &Field{Kind: KMatch, Name: m.Name + "Bis", Key: m.Key}
		used := map[string]bool{}
		for i, pr := range m.Pairs {
			for _, key := range pr.Keys {
				used[key] = true
			}
			if i == 0 && len(m.Pairs) > 1 {
				continue // the first table's first pair is missing from the second table
			}
			m2.Pairs = append(m2.Pairs, Pair{Keys: append([]string{}, pr.Keys[:1]...), Target: pr.Target})
		}
		for own := 1; own < 120; own++ {
			if s := fmt.Sprint(own); !used[s] {
				m2.Pairs = append(m2.Pairs, Pair{Keys: []string{s}, Target: m.Pairs[0].Target})
				break
			}
		}
		k.Fields = append(k.Fields, m2)
		return true
	}
	return false
}

// ShareInline copies one packet's inline object (same name, same fields) into another packet,
// when the program has an inline object and a second packet.
func ShareInline(t *rapid.T, p *Program) bool { return shareInline(t, p, false) }

// ShareInlineVariant does the same but gives the copy a different layout (one more field).
func ShareInlineVariant(t *rapid.T, p *Program) bool { return shareInline(t, p, true) }

func shareInline(t *rapid.T, p *Program, variant bool) bool {
	for i, k := range p.Packets {
		for _, f := range k.Fields {
			if f.Kind != KInline || hasRefs(f.Inline) {
				continue // copying a reference elsewhere could close a cycle
			}
			var others []int
			for j := range p.Packets {
				if j != i {
					others = append(others, j)
				}
			}
			if len(others) == 0 {
				return false
			}
			o := p.Packets[others[rapid.IntRange(0, len(others)-1).Draw(t, "shareinline_to")]]
			b := p.Clone()
			var cp *Field
			for _, bf := range b.PacketByName(k.Name).Fields {
				if bf.Name == f.Name {
					cp = bf
				}
			}
			cp.Repeat = false
			if variant {
				extra := &Field{Kind: KScalar, Type: "u16", Name: cp.Inline.Name + "Extra"}
				cp.Inline.Fields = append([]*Field{extra}, cp.Inline.Fields...)
			}
			o.Fields = append(o.Fields, cp)
			return true
		}
	}
	return false
}

// InlineShadowsPacket renames an inline object after a top-level packet declared elsewhere (with
// another layout): names of inline objects are local to the packet that declares them.
func InlineShadowsPacket(t *rapid.T, p *Program) bool {
	for _, k := range p.Packets {
		for _, f := range k.Fields {
			if f.Kind != KInline {
				continue
			}
			var cands []*Packet
			for _, o := range p.Packets {
				if o != k && k.FieldByName(o.Name) == nil && !usesName(p, o.Name) {
					cands = append(cands, o)
				}
			}
			if len(cands) == 0 {
				return false
			}
			o := cands[rapid.IntRange(0, len(cands)-1).Draw(t, "shadowed_packet")]
			f.Name, f.Inline.Name = o.Name, o.Name
			return true
		}
	}
	return false
}

// usesName: some inline object is already called name.
func usesName(p *Program, name string) bool {
	var walk func(k *Packet) bool
	walk = func(k *Packet) bool {
		for _, f := range k.Fields {
			if f.Kind == KInline && (f.Inline.Name == name || walk(f.Inline)) {
				return true
			}
		}
		return false
	}
	for _, k := range p.Packets {
		if walk(k) {
			return true
		}
	}
	return false
}

func hasRefs(k *Packet) bool {
	for _, f := range k.Fields {
		if f.Kind == KObj || f.Kind == KMatch || (f.Kind == KInline && hasRefs(f.Inline)) {
			return true
		}
	}
	return false
}
