package dsl

import (
	"fmt"
	"strings"

	"pgregory.net/rapid"
)

// SynCfg steers the grammar-derived text generator (syntactic validity only).
type SynCfg struct {
	Avoid map[string]bool // construct tags to leave out (open findings)
	Deep  int             // extra inline nesting
}

func (c SynCfg) avoid(s string) bool { return c.Avoid != nil && c.Avoid[s] }

type syn struct {
	t   *rapid.T
	cfg SynCfg
	r   *renderer
	n   int
}

func (s *syn) id(label string) string {
	s.n++
	pool := []string{"A", "b", "Msg", "msgType", "Body_len", "_x", "X1", "packetx", "u8x", "rootNode", "Logon", "HEART", "matchKey", "a1b2", "Zz"}
	return rapid.SampledFrom(pool).Draw(s.t, label) + fmt.Sprint(rapid.IntRange(0, 9).Draw(s.t, label+"_n"))
}

func (s *syn) pick(label string, n int) int { return rapid.IntRange(0, n-1).Draw(s.t, label) }
func (s *syn) maybe(label string) bool      { return rapid.Bool().Draw(s.t, label) }

var allTypeNames = []string{"char", "uint8", "u8", "uint16", "u16", "uint32", "u32", "uint64", "u64", "int8", "i8", "int16", "i16", "int32", "i32", "int64", "i64", "float32", "f32", "float64", "f64"}

func (s *syn) typ(label string) {
	switch s.pick(label+"_tk", 4) {
	case 0, 1:
		s.r.emit(rapid.SampledFrom(allTypeNames).Draw(s.t, label+"_bt"))
	case 2:
		if s.maybe(label + "_z") {
			s.r.emit("zchar[")
		} else {
			s.r.emit("char[")
		}
		s.r.emit(rapid.SampledFrom([]string{"0", "1", "8", "007", "300"}).Draw(s.t, label+"_fn"))
		s.r.emit("]")
	default:
		s.r.emit(rapid.SampledFrom([]string{"string", "char[]"}).Draw(s.t, label+"_ds"))
	}
}

func (s *syn) str(label string) string {
	return rapid.SampledFrom([]string{`"A"`, `""`, `"a b"`, `"x\"y"`, `"CRC32"`, `"// no"`, `"é日"`, `"a\\"`, `"%d%%"`, "\"t\tab\""}).Draw(s.t, label)
}

func (s *syn) docOpt(label string) {
	if s.cfg.avoid("doc") {
		return
	}
	if s.pick(label+"_hd", 3) == 0 {
		docs := []string{"`d`", "``", "`消息`", "`// c`", "`a , b`", "` lead`", "`50% of %v`", "`tab\tinside`"}
		if !s.cfg.avoid("doc:multiline") {
			docs = append(docs, "`two\nlines`", "`first\n    indented\n\nafter blank`", "`a \"quote\nb // no comment\n`", "`\nleading break`", "`tab\n\tline`", "`cr\r\nlf`")
		}
		s.r.emit(rapid.SampledFrom(docs).Draw(s.t, label+"_doc"))
	}
}

func (s *syn) attrs(label string) {
	if s.cfg.avoid("attr") {
		return
	}
	n := rapid.SampledFrom([]int{0, 0, 0, 1, 1, 2, 3}).Draw(s.t, label+"_na")
	for i := 0; i < n; i++ {
		l := fmt.Sprintf("%s_a%d", label, i)
		switch s.pick(l, 4) {
		case 0:
			s.r.emit("@lengthOf(")
			s.r.emit(s.id(l + "_t"))
			s.r.emit(")")
		case 1:
			s.r.emit("@calculatedFrom(")
			s.r.emit(s.str(l + "_s"))
			s.r.emit(")")
		case 2:
			s.r.emit("@tag(")
			s.r.emit(rapid.SampledFrom([]string{"0", "35", "0010"}).Draw(s.t, l+"_tag"))
			s.r.emit(")")
		default:
			s.r.emit(rapid.SampledFrom([]string{"@leftPad", "@rightPad"}).Draw(s.t, l+"_pa"))
			s.r.emit("(")
			if s.cfg.avoid("pad:noarg") || s.pick(l+"_parg", 4) != 0 {
				s.r.emit(rapid.SampledFrom(padChars).Draw(s.t, l+"_pc"))
			}
			s.r.emit(")")
		}
		s.r.line()
	}
}

func (s *syn) matchDecl(label string) {
	s.r.emit("match")
	s.r.emit(s.id(label + "_mk"))
	s.r.emit("as")
	s.r.emit(s.id(label + "_mn"))
	s.r.emit("{")
	s.r.ind++
	np := rapid.IntRange(1, 4).Draw(s.t, label+"_np")
	for i := 0; i < np; i++ {
		l := fmt.Sprintf("%s_p%d", label, i)
		s.r.line()
		pairSite := "pair"
		if i == np-1 {
			pairSite = "lastpair"
		}
		s.r.site = pairSite + "-start"
		key := func(kl string) {
			if s.maybe(kl + "_isd") {
				s.r.emit(rapid.SampledFrom([]string{"0", "1", "42", "010", "99999999999999999999"}).Draw(s.t, kl+"_d"))
			} else {
				s.r.emit(s.str(kl + "_s"))
			}
		}
		if s.pick(l+"_kk", 3) == 0 {
			s.r.emit("[")
			nk := rapid.SampledFrom([]int{1, 2, 3, 5, 6, 7, 10, 11, 15}).Draw(s.t, l+"_nk")
			for j := 0; j < nk; j++ {
				if j > 0 {
					s.r.emit(",")
				}
				key(fmt.Sprintf("%s_k%d", l, j))
			}
			s.r.emit("]")
		} else {
			key(l + "_k")
		}
		s.r.emit(":")
		s.r.emit(s.id(l + "_tg"))
		s.r.site = pairSite + "-end"
		if s.pick(l+"_comma", 3) != 0 {
			s.r.emit(",")
		}
	}
	s.r.ind--
	s.r.line()
	s.r.site = "match-close"
	s.r.emit("}")
}

// fieldDef emits one fieldDefinition alternative.
func (s *syn) fieldDef(label string, depth int) {
	r := s.r
	alts := []int{0, 1, 1, 2, 2, 3, 4, 5}
	if depth >= 2+s.cfg.Deep {
		alts = []int{1, 2, 3, 4}
	}
	rep := func() {
		if s.pick(label+"_rep", 3) == 0 {
			r.emit("repeat")
		}
	}
	switch rapid.SampledFrom(alts).Draw(s.t, label+"_alt") {
	case 0: // InerObjectField
		rep()
		r.emit(s.id(label + "_in"))
		r.emit("{")
		r.ind++
		n := rapid.IntRange(1, 3).Draw(s.t, label+"_inn")
		for i := 0; i < n; i++ {
			r.line()
			r.site = "field-start"
			s.fieldDef(fmt.Sprintf("%s_i%d", label, i), depth+1)
		}
		r.ind--
		r.line()
		r.site = "inline-close"
		r.emit("}")
		r.site = "field-end"
		r.emit(",")
	case 1: // MetaField
		rep()
		s.typ(label + "_mt")
		r.emit(s.id(label + "_mn"))
		s.docOpt(label + "_md")
		r.site = "field-end"
		r.emit(",")
	case 2: // ObjectField
		rep()
		r.emit(s.id(label + "_ot"))
		if s.maybe(label + "_on") {
			r.emit(s.id(label + "_onm"))
		}
		if !s.cfg.avoid("doc:objectfield") {
			s.docOpt(label + "_od")
		}
		r.site = "field-end"
		r.emit(",")
	case 3: // LengthField
		if s.maybe(label + "_lt") {
			s.typ(label + "_ltt")
		}
		r.emit(s.id(label + "_ln"))
		r.emit("@lengthOf(")
		r.emit(s.id(label + "_lf"))
		r.emit(")")
		s.docOpt(label + "_ld")
		r.site = "field-end"
		r.emit(",")
	case 4: // CheckSumField
		if s.maybe(label + "_ct") {
			s.typ(label + "_ctt")
		}
		r.emit(s.id(label + "_cn"))
		r.emit("@calculatedFrom(")
		r.emit(s.str(label + "_cs"))
		r.emit(")")
		s.docOpt(label + "_cd")
		r.site = "field-end"
		r.emit(",")
	default: // MatchField
		s.matchDecl(label)
		r.site = "field-end"
		r.emit(",")
	}
	r.site = ""
}

// GenSyntax draws a syntactically valid text as tokens, exercising every grammar alternative
// and optional element; semantic well-formedness is not attempted.
func GenSyntax(t *rapid.T, cfg SynCfg) []Tok {
	s := &syn{t: t, cfg: cfg, r: &renderer{sp: Plain{}}}
	r := s.r
	nd := rapid.IntRange(0, 5).Draw(t, "ndefs")
	for d := 0; d < nd; d++ {
		l := fmt.Sprintf("d%d", d)
		r.line()
		kinds := []int{0, 0, 0, 1, 2}
		if cfg.avoid("metadata") {
			kinds = []int{0, 0, 0, 2}
		}
		switch rapid.SampledFrom(kinds).Draw(t, l+"_kind") {
		case 0: // packetDefinition
			r.site = "packet-start"
			r.mark("def")
			if s.pick(l+"_root", 3) == 0 {
				r.emit("root")
			}
			r.emit("packet")
			r.emit(s.id(l + "_pn"))
			r.emit("{")
			r.ind++
			nf := rapid.IntRange(0, 5).Draw(t, l+"_nf")
			for i := 0; i < nf; i++ {
				fl := fmt.Sprintf("%s_f%d", l, i)
				r.line()
				r.site = "field-start"
				s.attrs(fl)
				s.fieldDef(fl, 0)
			}
			r.ind--
			r.line()
			r.site = "packet-close"
			r.emit("}")
		case 1: // metaDataDefinition
			r.site = "meta-start"
			r.mark("def")
			r.emit("MetaData")
			r.emit(s.id(l + "_mn"))
			r.emit("{")
			r.ind++
			ne := rapid.IntRange(0, 4).Draw(t, l+"_ne")
			for i := 0; i < ne; i++ {
				el := fmt.Sprintf("%s_e%d", l, i)
				r.line()
				r.site = "metaentry-start"
				if s.pick(el+"_ref", 3) == 0 {
					r.emit(s.id(el + "_rt"))
				} else {
					s.typ(el + "_t")
				}
				r.emit(s.id(el + "_n"))
				if cfg.avoid("meta:nodoc") {
					r.emit("`d`")
				} else {
					s.docOpt(el + "_d")
				}
				r.site = "metaentry-end"
				r.emit(",")
			}
			r.ind--
			r.line()
			r.site = "meta-close"
			r.emit("}")
		default: // optionDefinition
			r.site = "options-start"
			r.mark("def")
			r.emit("options")
			r.emit("{")
			r.ind++
			no := rapid.IntRange(0, 4).Draw(t, l+"_no")
			for i := 0; i < no; i++ {
				ol := fmt.Sprintf("%s_o%d", l, i)
				r.line()
				r.site = "opt-start"
				r.emit(rapid.SampledFrom([]string{"LittleEndian", "StringPrefixLenType", "ArrayPrefixLenType", "JavaPackage", "GoPackage", "GoModule", "FixedStringPadFromLeft", "FixedStringPadChar", "Unknown_opt"}).Draw(t, ol+"_on"))
				r.emit("=")
				switch s.pick(ol+"_vk", 6) {
				case 0:
					s.typ(ol + "_vt")
				case 1:
					r.emit(s.str(ol + "_vs"))
				case 2:
					r.emit(rapid.SampledFrom([]string{"0", "16", "00"}).Draw(t, ol+"_vd"))
				case 3:
					r.emit(rapid.SampledFrom(padChars).Draw(t, ol+"_vp"))
				case 4:
					r.emit("true")
				default:
					r.emit("false")
				}
				r.site = "opt-end"
				if s.pick(ol+"_semi", 3) != 0 {
					r.emit(";")
				}
			}
			r.ind--
			r.line()
			r.site = "options-close"
			r.emit("}")
		}
		r.site = ""
	}
	return r.toks
}

// CommentMode says where comments may be placed.
type CommentMode int

const (
	NoComments       CommentMode = iota
	DeclComments                 // own-line before a declaration start, trailing after a declaration end
	AnywhereComments             // at every token boundary
)

var commentBodies = []string{" c", "", " packet X {", "// double", " `tick` \"q\"", " 注释", " trailing  spaces  ", " @leftPad('0')", " 100% sure %s %d", " c", " reserved", " reserved", " tab\there", "\tlead tab"}

// Decorate attaches comments to tokens. Returns the number of comments placed.
func Decorate(t *rapid.T, toks []Tok, mode CommentMode, label string, allowed func(siteClass string) bool) []string {
	if mode == NoComments || len(toks) == 0 {
		return nil
	}
	var sites []string
	if allowed == nil {
		allowed = func(string) bool { return true }
	}
	for i := range toks {
		tk := &toks[i]
		l := fmt.Sprintf("%s_c%d", label, i)
		pre, trail := false, false
		switch mode {
		case AnywhereComments:
			pre = rapid.IntRange(0, 11).Draw(t, l+"_pre") == 0
			trail = rapid.IntRange(0, 11).Draw(t, l+"_tr") == 0
		case DeclComments:
			if strings.HasSuffix(tk.Site, "-start") {
				pre = rapid.IntRange(0, 3).Draw(t, l+"_pre") == 0
			}
			if strings.HasSuffix(tk.Site, "-end") || strings.HasSuffix(tk.Site, "-close") {
				trail = rapid.IntRange(0, 3).Draw(t, l+"_tr") == 0
			}
		}
		if pre && !allowed(SiteClass(*tk, true)) {
			pre = false
		}
		if trail && !allowed(SiteClass(*tk, false)) {
			trail = false
		}
		if pre {
			k := rapid.IntRange(1, 2).Draw(t, l+"_npre")
			for j := 0; j < k; j++ {
				tk.Pre = append(tk.Pre, rapid.SampledFrom(commentBodies).Draw(t, l+"_pb"))
				sites = append(sites, SiteClass(*tk, true))
			}
		}
		if trail {
			tk.HasTr = true
			tk.Trail = rapid.SampledFrom(commentBodies).Draw(t, l+"_tb")
			sites = append(sites, SiteClass(*tk, false))
		}
	}
	return sites
}

// RandLayout draws whitespace between tokens.
type RandLayout struct {
	T     *rapid.T
	Label string
	// KeepLines: only horizontal whitespace changes inside a line; line breaks stay where the
	// plain layout puts them (used by relayouts that must keep comments on their token's line).
	Wild bool
	// Dense: most line breaks of the plain layout become single blanks, so several
	// declarations share a line.
	Dense bool
}

// PreGap implements PreGapper: blank lines between two own-line comments in front of one token.
func (l RandLayout) PreGap(i, j int) string {
	return rapid.SampledFrom([]string{"", "", "\n", "\n\n", "  \n", "\r\n"}).Draw(l.T, fmt.Sprintf("%s_pg%d_%d", l.Label, i, j))
}

var gaps = []string{" ", " ", "  ", "\t", "\n", "\n\n", "\n    ", " \n\t", "\r\n", "   \n  \n "}

// Gap implements Layouter.
func (l RandLayout) Gap(i int, t Tok, must bool) string {
	lbl := fmt.Sprintf("%s_g%d", l.Label, i)
	if l.Dense {
		if t.NL && i > 0 && rapid.IntRange(0, 3).Draw(l.T, lbl+"_join") != 0 {
			return " "
		}
		return PlainLayout{}.Gap(i, t, must)
	}
	if !l.Wild {
		// mostly conventional, sometimes odd
		if rapid.IntRange(0, 5).Draw(l.T, lbl+"_odd") != 0 {
			return PlainLayout{}.Gap(i, t, must)
		}
	}
	g := rapid.SampledFrom(gaps).Draw(l.T, lbl)
	if !must && rapid.IntRange(0, 3).Draw(l.T, lbl+"_none") == 0 {
		return ""
	}
	return g
}

// SiteClass names the grammatical position of a comment attached to tk.
func SiteClass(tk Tok, pre bool) string {
	site := tk.Site
	if site == "" {
		site = "inner"
	}
	if site == "field-start" && strings.HasPrefix(tk.Text, "@") {
		site = "attrfield-start"
	}
	if pre {
		return "pre:" + site
	}
	return "trail:" + site
}
