// Package dsl is the harness's own model of PacketDSL programs: an AST that shares no code
// with fin-protoc's model, rapid generators for it, a renderer with a spelling layer, a
// tokenizer written from the lexer rules, and message values.
package dsl

import (
	"fmt"
	"sort"
	"strings"

	"github.com/iancoleman/strcase"
)

// ShapeOf classifies an identifier's spelling.
func ShapeOf(n string) string {
	switch {
	case strings.HasSuffix(n, "ID"):
		return "acronym"
	case strings.Contains(n, "_") && strings.ToLower(n) == n:
		return "snake"
	case strings.Contains(n, "_"):
		return "underscore"
	case strings.ToUpper(n) == n:
		return "allcaps"
	case strings.ContainsAny(n, "0123456789"):
		return "digit"
	case n[:1] == strings.ToLower(n[:1]):
		return "lowercamel"
	}
	return "other"
}

// Kind of a field.
type Kind int

const (
	KScalar Kind = iota // char u8..f64
	KFixed              // char[n] / zchar[n]
	KDyn                // string / char[]
	KObj                // reference to a packet
	KInline             // Name { fields }
	KMatch              // match Key as Name { pairs }
	KLen                // length-of
	KSum                // checksum
)

func (k Kind) String() string {
	return [...]string{"scalar", "fixed", "dyn", "obj", "inline", "match", "len", "sum"}[k]
}

// Pad is a padding attribute as written; Char is one of "", "'0'", "' '", "'\\x00'" (source text).
type Pad struct {
	Left bool   `json:"left"`
	Char string `json:"char"` // "" = no argument: @leftPad()
}

// Pair is one match pair: one or more keys mapping to a packet.
type Pair struct {
	Mark   string   `json:"mark,omitempty"`
	Keys   []string `json:"keys"` // source text of each key: 12 or "AB"
	List   bool     `json:"list"` // written as [k1, k2]
	Target string   `json:"target"`
}

// Field of a packet.
type Field struct {
	Mark   string  `json:"mark,omitempty"` // overrides the span key of this declaration (fault injection)
	Kind   Kind    `json:"kind"`
	Name   string  `json:"name"`
	Type   string  `json:"type,omitempty"` // canonical scalar type for KScalar/KLen/KSum
	N      int     `json:"n,omitempty"`
	Z      bool    `json:"z,omitempty"`   // zchar[n]
	Pad    *Pad    `json:"pad,omitempty"` // declared padding attribute
	Repeat bool    `json:"repeat,omitempty"`
	Ref    string  `json:"ref,omitempty"`
	Inline *Packet `json:"inline,omitempty"`
	Key    string  `json:"key,omitempty"`
	Pairs  []Pair  `json:"pairs,omitempty"`
	Target string  `json:"target,omitempty"` // length-of target field
	Alg    string  `json:"alg,omitempty"`    // checksum algorithm name (without quotes)
	Via    string  `json:"via,omitempty"`    // MetaData entry the type comes from ("" = inline type)
	Doc    string  `json:"doc,omitempty"`
	Tag    int     `json:"tag,omitempty"`
	// AttrPrefixed: length-of / checksum written as "@attr(..) type name," instead of "type name @attr(..),"
	AttrPrefixed bool `json:"attr_prefixed,omitempty"`
}

// Packet declaration.
type Packet struct {
	Mark   string   `json:"mark,omitempty"`
	Name   string   `json:"name"`
	Root   bool     `json:"root,omitempty"`
	Fields []*Field `json:"fields"`
}

// MetaEntry is one entry of a MetaData block; Alias != "" means "Alias Name `doc`," (refMetaDataDeclaration).
type MetaEntry struct {
	Mark  string `json:"mark,omitempty"`
	Name  string `json:"name"`
	Kind  Kind   `json:"kind"` // KScalar, KFixed, KDyn
	Type  string `json:"type,omitempty"`
	N     int    `json:"n,omitempty"`
	Z     bool   `json:"z,omitempty"`
	Alias string `json:"alias,omitempty"`
	Doc   string `json:"doc"`
}

// MetaBlock is "MetaData Name { entries }".
type MetaBlock struct {
	Name    string      `json:"name"`
	Entries []MetaEntry `json:"entries"`
}

// Opts is the options block as written ("" = omitted).
type Opts struct {
	LittleEndian string     `json:"le,omitempty"`
	StrPrefix    string     `json:"sp,omitempty"`
	ArrPrefix    string     `json:"ap,omitempty"`
	PadLeft      string     `json:"padleft,omitempty"`
	PadChar      string     `json:"padchar,omitempty"`
	JavaPackage  string     `json:"java,omitempty"`
	GoPackage    string     `json:"gopkg,omitempty"`
	GoModule     string     `json:"gomod,omitempty"`
	Extra        []ExtraOpt `json:"extra,omitempty"` // further declarations appended verbatim (fault injection)
}

// ExtraOpt is an option declaration written as given.
type ExtraOpt struct {
	Name, Val, Mark string
}

// Program is a whole DSL file.
type Program struct {
	// MetaLast: MetaData blocks are written after the packets (definitions may come in any order)
	MetaLast bool         `json:"meta_last,omitempty"`
	Opts     Opts         `json:"opts"`
	Metas    []*MetaBlock `json:"metas,omitempty"`
	Packets  []*Packet    `json:"packets"`
}

// Config is the effective configuration derived from Opts with the documented defaults.
type Config struct {
	LE       bool
	SP, AP   string
	PadLeft  bool
	PadByte  byte
	PadIsSet bool
}

// Effective computes the configuration the statement of C01 prescribes.
func (o Opts) Effective() Config {
	c := Config{SP: "u16", AP: "u16", PadByte: ' '}
	if o.LittleEndian == "true" {
		c.LE = true
	}
	if o.StrPrefix != "" {
		c.SP = o.StrPrefix
	}
	if o.ArrPrefix != "" {
		c.AP = o.ArrPrefix
	}
	if o.PadLeft == "true" {
		c.PadLeft = true
	}
	if o.PadChar != "" {
		c.PadByte = PadByteOf(o.PadChar)
	}
	return c
}

// PadByteOf maps a PADDING_CHAR source text to its byte.
func PadByteOf(src string) byte {
	switch src {
	case "'0'":
		return '0'
	case "'\\x00'":
		return 0
	default:
		return ' '
	}
}

// ScalarSize is the width in bytes of a canonical scalar type.
func ScalarSize(t string) int {
	switch t {
	case "char", "u8", "i8":
		return 1
	case "u16", "i16":
		return 2
	case "u32", "i32", "f32":
		return 4
	case "u64", "i64", "f64":
		return 8
	}
	panic("bad scalar " + t)
}

// PacketByName finds a top-level packet.
func (p *Program) PacketByName(n string) *Packet {
	for _, k := range p.Packets {
		if k.Name == n {
			return k
		}
	}
	return nil
}

// RootPacket returns the root packet or nil.
func (p *Program) RootPacket() *Packet {
	for _, k := range p.Packets {
		if k.Root {
			return k
		}
	}
	return nil
}

// FieldByName finds a field of a packet.
func (k *Packet) FieldByName(n string) *Field {
	for _, f := range k.Fields {
		if f.Name == n {
			return f
		}
	}
	return nil
}

// PadFor returns the effective (byte, left) padding of a fixed-string field.
func (p *Program) PadFor(f *Field) (byte, bool) {
	if f.Pad != nil {
		return PadByteOf(f.Pad.Char), f.Pad.Left
	}
	if f.Z {
		return 0, false
	}
	c := p.Opts.Effective()
	return c.PadByte, c.PadLeft
}

// Features returns the sorted feature tags of a program (used for applicability and coverage).
func (p *Program) Features() []string {
	set := map[string]bool{}
	cfg := p.Opts.Effective()
	if cfg.LE {
		set["opt:le"] = true
	} else {
		set["opt:be"] = true
	}
	set["opt:sp="+cfg.SP] = true
	set["opt:ap="+cfg.AP] = true
	if p.Opts.PadChar != "" || p.Opts.PadLeft != "" {
		set["opt:pad"] = true
	}
	if len(p.Metas) > 0 {
		set["meta"] = true
	}
	var walk func(k *Packet, inl bool)
	walk = func(k *Packet, inl bool) {
		if len(k.Fields) == 0 {
			set["packet:empty"] = true
		}
		nm := 0
		for _, f := range k.Fields {
			rep := ""
			if f.Repeat {
				rep = "repeat:"
			}
			switch f.Kind {
			case KScalar:
				set[rep+"scalar:"+f.Type] = true
			case KFixed:
				set[rep+"fixed"] = true
				if f.Pad != nil {
					if f.Pad.Left {
						set["pad:left"] = true
					} else {
						set["pad:right"] = true
					}
					set["pad:char="+f.Pad.Char] = true
				}
				if f.Z {
					set["zchar"] = true
				}
			case KDyn:
				set[rep+"dyn"] = true
			case KObj:
				set[rep+"obj"] = true
				if f.Name != f.Ref {
					set["obj:named"] = true
				}
				if inl {
					set["inline:obj"] = true
				}
			case KInline:
				set[rep+"inline"] = true
				if inl {
					set["inline:nested"] = true
				}
				walk(f.Inline, true)
			case KMatch:
				nm++
				set["match"] = true
				kf := k.FieldByName(f.Key)
				if kf != nil {
					if kf.Kind == KScalar {
						set["match:key="+kf.Type] = true
					} else {
						set["match:strkey"] = true
						if kf.Kind == KFixed {
							set["match:fixedkey"] = true
						}
					}
				}
				for _, pr := range f.Pairs {
					if pr.List {
						set["match:list"] = true
					}
				}
			case KLen:
				set["len"] = true
				set["len:"+f.Type] = true
				if t := k.FieldByName(f.Target); t != nil {
					set["len:target="+t.Kind.String()] = true
				}
			case KSum:
				set["sum"] = true
				set["sum:"+f.Type] = true
				if !k.Root {
					set["sum:nested"] = true
				}
			}
			if f.Via != "" {
				set["via"] = true
			}
		}
		if nm >= 2 {
			set["match:multi"] = true
		}
		ns := 0
		for _, f := range k.Fields {
			if f.Kind == KSum {
				ns++
			}
		}
		if ns >= 2 {
			set["sum:multi"] = true
		}
	}
	for _, k := range p.Packets {
		walk(k, false)
	}
	// field names that are reserved words of a target language
	kw := map[string]bool{}
	for _, w := range keywordNames {
		kw[w] = true
	}
	var kwWalk func(k *Packet)
	kwWalk = func(k *Packet) {
		for _, f := range k.Fields {
			if kw[f.Name] {
				set["names:keyword"] = true
			}
			if f.Inline != nil {
				kwWalk(f.Inline)
			}
		}
	}
	for _, k := range p.Packets {
		kwWalk(k)
	}
	// two packets whose match fields use a key field of the same name (names are packet-scoped)
	keyOwners := map[string]int{}
	for _, k := range p.Packets {
		seen := map[string]bool{}
		for _, f := range k.Fields {
			if f.Kind == KMatch && !seen[f.Key] {
				seen[f.Key] = true
				keyOwners[f.Key]++
			}
		}
	}
	for _, n := range keyOwners {
		if n >= 2 {
			set["match:shared-key-name"] = true
		}
	}
	// identifier shapes: names that are not fixpoints of the generators' case conversions
	canonical := func(n string) bool {
		return strcase.ToCamel(n) == n && strcase.ToCamel(strcase.ToSnake(n)) == n && strcase.ToCamel(strcase.ToLowerCamel(n)) == n
	}
	var walkNames func(k *Packet, top bool)
	walkNames = func(k *Packet, top bool) {
		if !canonical(k.Name) {
			if top {
				set["shape:packet"] = true
				set["shape:packet:"+ShapeOf(k.Name)] = true
			} else {
				set["shape:inline"] = true
			}
		}
		for _, f := range k.Fields {
			if !canonical(f.Name) && f.Kind != KInline && !(f.Kind == KObj && f.Name == f.Ref) {
				set["shape:field"] = true
				set["shape:field:"+ShapeOf(f.Name)] = true
			}
			if f.Kind == KInline {
				walkNames(f.Inline, false)
			}
		}
	}
	for _, k := range p.Packets {
		walkNames(k, true)
	}
	// shapes of the reference graph that the emitted self-tests are sensitive to
	referenced := map[string]bool{}
	for _, k := range p.Packets {
		count := map[string]int{}
		var closure func(q *Packet, viaMatch bool, depth int)
		closure = func(q *Packet, viaMatch bool, depth int) {
			if depth > 12 {
				return
			}
			for _, f := range q.Fields {
				switch f.Kind {
				case KObj:
					count[f.Ref]++
					referenced[f.Ref] = true
					if q != k {
						set["obj-in-closure"] = true
					}
					if f.Repeat {
						if t := p.PacketByName(f.Ref); t != nil {
							for _, sf := range t.Fields {
								if sf.Kind == KMatch {
									set["repeat-obj-has-match"] = true
								}
								if sf.Kind == KObj || sf.Kind == KInline {
									set["repeat-obj-has-obj"] = true
								}
							}
						}
					}
					if viaMatch {
						set["match-payload-has-ref"] = true
					}
					if t := p.PacketByName(f.Ref); t != nil {
						closure(t, viaMatch, depth+1)
					}
				case KInline:
					if q != k {
						set["inline-in-closure"] = true
					}
					if viaMatch {
						set["match-payload-has-inline"] = true
					}
					if f.Repeat {
						for _, sf := range f.Inline.Fields {
							if sf.Kind == KObj || sf.Kind == KInline {
								set["repeat-inline-has-obj"] = true
							}
						}
					}
					closure(f.Inline, viaMatch, depth+1)
				case KMatch:
					if q != k {
						set["match-in-closure"] = true
					}
					if viaMatch {
						set["match-payload-has-match"] = true
					}
					for i, pr := range f.Pairs {
						referenced[pr.Target] = true
						if i == 0 {
							count[pr.Target]++
							if t := p.PacketByName(pr.Target); t != nil {
								closure(t, true, depth+1)
							}
						}
					}
				}
			}
		}
		closure(k, false, 0)
		for _, n := range count {
			if n >= 2 {
				set["dupinst"] = true
			}
		}
	}
	out := make([]string, 0, len(set))
	for s := range set {
		out = append(out, s)
	}
	sort.Strings(out)
	return out
}

// Has reports whether tag is among feats.
func Has(feats []string, tag string) bool {
	i := sort.SearchStrings(feats, tag)
	return i < len(feats) && feats[i] == tag
}

// Summary is a one-line description for evidence samples.
func (p *Program) Summary() string {
	var b strings.Builder
	fmt.Fprintf(&b, "%d packets; ", len(p.Packets))
	b.WriteString(strings.Join(p.Features(), " "))
	return b.String()
}
