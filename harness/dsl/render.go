package dsl

import (
	"fmt"
	"strings"
)

// Speller decides between equivalent spellings at each site. Choose returns a value in
// [0,n); 0 is always the plain spelling.
type Speller interface {
	Choose(site string, n int) int
}

// Plain always picks the plain spelling.
type Plain struct{}

// Choose implements Speller.
func (Plain) Choose(string, int) int { return 0 }

// Tok is one rendered token with its layout hints and declaration marks.
type Tok struct {
	Text   string
	NL     bool     // plain layout: starts a new line
	Indent int      // plain layout: indent level when NL
	Open   []string // declarations that start with this token
	Close  []string // declarations that end with this token
	Pre    []string // own-line comments before the token (without the //)
	Trail  string   // trailing comment on the token's line ("" none); text without //
	HasTr  bool
	Site   string // grammatical position (for comment-position classes)
}

// Span is the 1-based line span of a declaration in the rendered text.
type Span struct{ First, Last int }

type renderer struct {
	sp   Speller
	toks []Tok
	ind  int
	nl   bool
	open []string
	site string
}

func (r *renderer) mark(m string) { r.open = append(r.open, m) }
func (r *renderer) emit(s string) {
	r.toks = append(r.toks, Tok{Text: s, NL: r.nl, Indent: r.ind, Open: r.open, Site: r.site})
	r.nl = false
	r.open = nil
	r.site = ""
}
func (r *renderer) close(m string) {
	t := &r.toks[len(r.toks)-1]
	t.Close = append(t.Close, m)
}
func (r *renderer) line() { r.nl = true }

var aliases = map[string]string{"u8": "uint8", "u16": "uint16", "u32": "uint32", "u64": "uint64",
	"i8": "int8", "i16": "int16", "i32": "int32", "i64": "int64", "f32": "float32", "f64": "float64"}

func (r *renderer) scalar(t, site string) {
	if a, ok := aliases[t]; ok && r.sp.Choose("alias:"+site, 2) == 1 {
		r.emit(a)
		return
	}
	r.emit(t)
}

// keyText spells a match key: an integer key may be written with leading zeros (keys are
// decimal numbers: 010 is ten).
func (r *renderer) keyText(k, site string) string {
	if k == "" || strings.Trim(k, "0123456789") != "" {
		return k
	}
	if r.sp.Choose("keyzero:"+site, 4) == 1 {
		return "0" + k
	}
	return k
}

func (r *renderer) doc(d, site string) {
	if d != "" {
		r.emit("`" + d + "`")
	}
}

// typeToks renders a value type (scalar / fixed / dyn).
func (r *renderer) typeToks(k Kind, t string, n int, z bool, site string) {
	switch k {
	case KScalar, KLen, KSum:
		r.scalar(t, site)
	case KFixed:
		if z {
			r.emit("zchar[")
		} else {
			r.emit("char[")
		}
		// DIGITS is [0-9]+ and read as a decimal number: 08 and 010 are 8 and 10
		switch r.sp.Choose("lenzero:"+site, 4) {
		case 1:
			r.emit("0" + fmt.Sprint(n))
		case 2:
			r.emit("00" + fmt.Sprint(n))
		default:
			r.emit(fmt.Sprint(n))
		}
		r.emit("]")
	case KDyn:
		if r.sp.Choose("dyn:"+site, 2) == 1 {
			r.emit("char[]")
		} else {
			r.emit("string")
		}
	}
}

func (r *renderer) padAttr(left bool, ch string) {
	if left {
		r.emit("@leftPad")
	} else {
		r.emit("@rightPad")
	}
	r.emit("(")
	if ch != "" {
		r.emit(ch)
	}
	r.emit(")")
	r.line()
}

// RenderOpts tunes what the spelling layer may rewrite.
type RenderOpts struct {
	// NoPadRewrites disables the zchar / default-padding rewrites (they are meaning-preserving
	// only as far as C08 says; other properties want the text as declared).
	NoPadRewrites bool
}

func (r *renderer) field(p *Program, owner string, f *Field, inInline bool, ro RenderOpts) {
	id := "field:" + owner + "." + f.Name
	if f.Mark != "" {
		id = f.Mark
	}
	site := owner + "." + f.Name
	r.line()
	r.mark(id)
	r.site = "field-start"
	cfg := p.Opts
	padOptSet := cfg.PadChar != "" || cfg.PadLeft != ""
	if f.Tag != 0 && !inInline {
		r.emit("@tag(")
		r.emit(fmt.Sprint(f.Tag))
		r.emit(")")
		r.line()
	}
	switch f.Kind {
	case KScalar, KFixed, KDyn:
		via := f.Via != ""
		if via && r.sp.Choose("via:"+site, 2) == 1 {
			via = false // inline the MetaData entry's type
		}
		z := f.Z
		pad := f.Pad
		if f.Kind == KFixed && !inInline && !ro.NoPadRewrites {
			if z && pad == nil && !via && r.sp.Choose("zchar:"+site, 2) == 1 {
				z = false
				pad = &Pad{Left: false, Char: "'\\x00'"}
			} else if !z && pad == nil && !padOptSet && r.sp.Choose("defpad:"+site, 2) == 1 {
				pad = &Pad{Left: false, Char: "' '"}
			}
		}
		if pad != nil && !inInline {
			ch := pad.Char
			if !ro.NoPadRewrites {
				if ch == "' '" && r.sp.Choose("padarg:"+site, 2) == 1 {
					ch = ""
				} else if ch == "" && r.sp.Choose("padarg:"+site, 2) == 1 {
					ch = "' '"
				}
			}
			r.padAttr(pad.Left, ch)
		}
		if f.Repeat {
			r.emit("repeat")
		}
		if via {
			r.emit(f.Via)
			if f.Name != f.Via {
				r.emit(f.Name)
			}
			// an ObjectField may carry a doc string
			r.doc(f.Doc, site)
		} else {
			r.typeToks(f.Kind, f.Type, f.N, z, site)
			r.emit(f.Name)
			r.doc(f.Doc, site)
		}
		r.site = "field-end"
		r.emit(",")
	case KObj:
		if f.Repeat {
			r.emit("repeat")
		}
		r.emit(f.Ref)
		if f.Name != f.Ref {
			r.emit(f.Name)
		}
		r.doc(f.Doc, site)
		r.site = "field-end"
		r.emit(",")
	case KInline:
		if f.Repeat {
			r.emit("repeat")
		}
		r.emit(f.Name)
		r.emit("{")
		r.ind++
		for _, sf := range f.Inline.Fields {
			r.field(p, owner+"."+f.Name, sf, true, ro)
		}
		r.ind--
		r.line()
		r.site = "inline-close"
		r.emit("}")
		r.site = "field-end"
		r.emit(",")
	case KMatch:
		r.emit("match")
		r.emit(f.Key)
		r.emit("as")
		r.emit(f.Name)
		r.emit("{")
		r.ind++
		for pi, pr := range f.Pairs {
			expand := pr.Mark == "" && pr.List && len(pr.Keys) >= 1 && r.sp.Choose(fmt.Sprintf("expand:%s#%d", site, pi), 2) == 1
			aslist := pr.List
			if !pr.List && r.sp.Choose(fmt.Sprintf("aslist:%s#%d", site, pi), 2) == 1 {
				aslist = true
			}
			if expand {
				for ki, k := range pr.Keys {
					r.line()
					r.mark(fmt.Sprintf("pair:%s#%d.%d", site, pi, ki))
					// the last pair of a table is its own position class: what follows it is the
					// closing brace, not another pair
					pairSite := "pair"
					if pi == len(f.Pairs)-1 && ki == len(pr.Keys)-1 {
						pairSite = "lastpair"
					}
					r.site = pairSite + "-start"
					r.emit(r.keyText(k, fmt.Sprintf("%s#%d.%d", site, pi, ki)))
					r.emit(":")
					r.emit(pr.Target)
					r.site = pairSite + "-end"
					if r.sp.Choose("paircomma:"+site, 2) == 0 {
						r.emit(",")
					}
					r.close(fmt.Sprintf("pair:%s#%d.%d", site, pi, ki))
				}
				continue
			}
			r.line()
			pairID := fmt.Sprintf("pair:%s#%d", site, pi)
			if pr.Mark != "" {
				pairID = pr.Mark
			}
			r.mark(pairID)
			pairSite := "pair"
			if pi == len(f.Pairs)-1 {
				pairSite = "lastpair"
			}
			r.site = pairSite + "-start"
			if aslist {
				r.emit("[")
				for ki, k := range pr.Keys {
					if ki > 0 {
						r.emit(",")
					}
					r.mark(fmt.Sprintf("key:%s#%d.%d", site, pi, ki))
					r.emit(r.keyText(k, fmt.Sprintf("%s#%d.%d", site, pi, ki)))
					r.close(fmt.Sprintf("key:%s#%d.%d", site, pi, ki))
				}
				r.emit("]")
			} else {
				r.mark(fmt.Sprintf("key:%s#%d.%d", site, pi, 0))
				r.emit(r.keyText(pr.Keys[0], fmt.Sprintf("%s#%d.0", site, pi)))
				r.close(fmt.Sprintf("key:%s#%d.%d", site, pi, 0))
			}
			r.emit(":")
			r.emit(pr.Target)
			r.site = pairSite + "-end"
			if r.sp.Choose("paircomma:"+site, 2) == 0 {
				r.emit(",")
			}
			r.close(pairID)
		}
		r.ind--
		r.line()
		r.site = "match-close"
		r.emit("}")
		r.site = "field-end"
		r.emit(",")
	case KLen, KSum:
		prefixed := f.AttrPrefixed
		if r.sp.Choose("attrplace:"+site, 2) == 1 {
			prefixed = !prefixed
		}
		via := f.Via != "" // "Name @lengthOf(T)," with the type taken from MetaData entry Name
		if via && r.sp.Choose("via:"+site, 2) == 1 {
			via = false
		}
		attr := func() {
			if f.Kind == KLen {
				r.emit("@lengthOf(")
				r.emit(f.Target)
				r.emit(")")
			} else {
				r.emit("@calculatedFrom(")
				r.emit("\"" + f.Alg + "\"")
				r.emit(")")
			}
		}
		if prefixed && !inInline {
			attr()
			r.line()
			if via {
				r.emit(f.Name)
			} else {
				r.scalar(f.Type, site)
				r.emit(f.Name)
			}
			r.doc(f.Doc, site)
		} else {
			if !via {
				r.scalar(f.Type, site)
			}
			r.emit(f.Name)
			attr()
			r.doc(f.Doc, site)
		}
		r.site = "field-end"
		r.emit(",")
	}
	r.close(id)
	r.site = ""
}

// Tokens renders the program to tokens under a speller.
func Tokens(p *Program, sp Speller, ro RenderOpts) []Tok {
	r := &renderer{sp: sp}
	// options
	type opt struct{ name, val, def string }
	o := p.Opts
	opts := []opt{
		{"LittleEndian", o.LittleEndian, "false"},
		{"StringPrefixLenType", o.StrPrefix, "u16"},
		{"ArrayPrefixLenType", o.ArrPrefix, "u16"},
		{"FixedStringPadFromLeft", o.PadLeft, "false"},
		{"FixedStringPadChar", o.PadChar, "' '"},
		{"JavaPackage", quoted(o.JavaPackage), `""`},
		{"GoPackage", quoted(o.GoPackage), `""`},
		{"GoModule", quoted(o.GoModule), `""`},
	}
	type shownOpt struct{ name, val, mark string }
	var shown []shownOpt
	for _, x := range opts {
		v := x.val
		if v == "" && x.def != "" && r.sp.Choose("defopt:"+x.name, 2) == 1 {
			// FixedStringPadChar/FromLeft defaults are only spelled when neither is configured,
			// so that "default padding" stays default
			v = x.def
		}
		// the documented words may also be written as string literals: LittleEndian = "true"
		switch x.name {
		case "LittleEndian", "StringPrefixLenType", "ArrayPrefixLenType", "FixedStringPadFromLeft":
			if v != "" && r.sp.Choose("optquote:"+x.name, 3) == 1 {
				v = `"` + v + `"`
			}
		}
		if v != "" {
			shown = append(shown, shownOpt{x.name, v, ""})
		}
	}
	// the options may be spread over two blocks
	splitAt := 0
	if len(shown) >= 2 {
		if at := r.sp.Choose("optsplit:block", 2*len(shown)); at >= 1 && at < len(shown) {
			splitAt = at
		}
	}
	for _, e := range o.Extra {
		shown = append(shown, shownOpt{e.Name, e.Val, e.Mark})
	}
	if len(shown) > 0 {
		r.line()
		r.mark("options")
		r.site = "options-start"
		r.emit("options")
		r.emit("{")
		r.ind++
		for xi, x := range shown {
			if splitAt > 0 && xi == splitAt {
				r.ind--
				r.line()
				r.site = "options-close"
				r.emit("}")
				r.close("options")
				r.line()
				r.mark("options#2")
				r.site = "options-start"
				r.emit("options")
				r.emit("{")
				r.ind++
			}
			r.line()
			optID := "opt:" + x.name
			if x.mark != "" {
				optID = x.mark
			}
			r.mark(optID)
			r.site = "opt-start"
			r.emit(x.name)
			r.emit("=")
			// option values are written as documented (u8..u64); aliases are not tried here
			r.emit(x.val)
			r.site = "opt-end"
			if r.sp.Choose("semi:"+x.name, 2) == 0 {
				r.emit(";")
			}
			r.close(optID)
		}
		r.ind--
		r.line()
		r.site = "options-close"
		r.emit("}")
		if splitAt > 0 {
			r.close("options#2")
		} else {
			r.close("options")
		}
	}
	emitMetas := func() {
		for _, m := range p.Metas {
			r.line()
			r.mark("metablock:" + m.Name)
			r.site = "meta-start"
			r.emit("MetaData")
			r.emit(m.Name)
			r.emit("{")
			r.ind++
			for _, e := range m.Entries {
				r.line()
				metaID := "meta:" + e.Name
				if e.Mark != "" {
					metaID = e.Mark
				}
				r.mark(metaID)
				r.site = "metaentry-start"
				if e.Alias != "" {
					r.emit(e.Alias)
				} else {
					r.typeToks(e.Kind, e.Type, e.N, e.Z, "meta:"+e.Name)
				}
				r.emit(e.Name)
				r.doc(e.Doc, "meta:"+e.Name)
				r.site = "metaentry-end"
				r.emit(",")
				r.close(metaID)
			}
			r.ind--
			r.line()
			r.site = "meta-close"
			r.emit("}")
			r.close("metablock:" + m.Name)
		}
	}
	if !p.MetaLast {
		emitMetas()
	}
	for _, k := range p.Packets {
		r.line()
		pktID := "packet:" + k.Name
		if k.Mark != "" {
			pktID = k.Mark
		}
		r.mark(pktID)
		r.site = "packet-start"
		if k.Root {
			r.emit("root")
		}
		r.emit("packet")
		r.emit(k.Name)
		r.emit("{")
		r.ind++
		for _, f := range k.Fields {
			r.field(p, k.Name, f, false, ro)
		}
		r.ind--
		r.line()
		r.site = "packet-close"
		r.emit("}")
		r.close(pktID)
	}
	if p.MetaLast {
		emitMetas()
	}
	return r.toks
}

func quoted(s string) string {
	if s == "" {
		return ""
	}
	return "\"" + s + "\""
}

func isIdentByte(c byte) bool {
	return c == '_' || (c >= '0' && c <= '9') || (c >= 'a' && c <= 'z') || (c >= 'A' && c <= 'Z')
}

// needSpace reports whether two adjacent token texts would merge lexically.
func needSpace(a, b string) bool {
	if a == "" || b == "" {
		return false
	}
	x, y := a[len(a)-1], b[0]
	if isIdentByte(x) && isIdentByte(y) {
		return true
	}
	// "char" + "[" would lex as the single token "char["; "@leftPad" + ident cannot occur; "/" "/" cannot occur
	if y == '[' && isIdentByte(x) {
		return true
	}
	return false
}

// Layouter chooses whitespace between tokens.
type Layouter interface {
	// Gap returns the whitespace between tokens i-1 and i (i==0: before the first token);
	// must is true when at least one blank is lexically required.
	Gap(i int, t Tok, must bool) string
}

// PreGapper is an optional extension of Layouter: whitespace-only lines between two own-line
// comments that stand in front of the same token.
type PreGapper interface {
	PreGap(i, j int) string
}

// PlainLayout is the conventional one-declaration-per-line layout.
type PlainLayout struct{}

// Gap implements Layouter.
func (PlainLayout) Gap(i int, t Tok, must bool) string {
	if t.NL {
		if i == 0 {
			return ""
		}
		nl := "\n"
		if t.Indent == 0 && len(t.Open) > 0 {
			nl = "\n\n"
		}
		return nl + strings.Repeat("    ", t.Indent)
	}
	switch t.Text {
	case ",", ";", ")", "]":
		return ""
	}
	return " "
}

// Layout turns tokens into text and returns the line span of every marked declaration.
func Layout(toks []Tok, l Layouter) (string, map[string]Span) {
	var b strings.Builder
	line := 1
	spans := map[string]Span{}
	write := func(s string) {
		b.WriteString(s)
		line += strings.Count(s, "\n")
	}
	prev := ""
	prevTrail := false
	for i, t := range toks {
		must := needSpace(prev, t.Text)
		gap := l.Gap(i, t, must)
		if strings.HasPrefix(prev, "(") || prev == "[" || strings.HasSuffix(prev, "(") || strings.HasSuffix(prev, "[") {
			if _, ok := l.(PlainLayout); ok && !t.NL {
				gap = ""
			}
		}
		if must && gap == "" {
			gap = " "
		}
		if prevTrail {
			// a comment runs to the end of its line: blanks before the line break would become
			// part of the comment text
			gap = strings.TrimLeft(gap, " \t")
			if !strings.HasPrefix(gap, "\n") && !strings.HasPrefix(gap, "\r") {
				gap = "\n" + gap
			}
		}
		if len(t.Pre) > 0 {
			// own-line comments: each on its own line, directly before the token
			head, tail := "", gap
			if j := strings.LastIndexByte(gap, '\n'); j >= 0 {
				head, tail = gap[:j+1], gap[j+1:]
			}
			write(head)
			if b.Len() > 0 && !strings.HasSuffix(b.String(), "\n") {
				write("\n")
			}
			for j, c := range t.Pre {
				if pg, ok := l.(PreGapper); ok && j > 0 {
					write(pg.PreGap(i, j)) // blank lines between the comments of one block
				}
				write(tail + "//" + c + "\n")
			}
			write(tail)
		} else {
			write(gap)
		}
		for _, m := range t.Open {
			spans[m] = Span{First: line, Last: line}
		}
		write(t.Text)
		for _, m := range t.Close {
			s := spans[m]
			s.Last = line
			spans[m] = s
		}
		prevTrail = false
		if t.HasTr {
			write(" //" + t.Trail)
			prevTrail = true
		}
		prev = t.Text
	}
	if prevTrail {
		// a comment may end the file without a newline; keep it simple and end the line
		write("\n")
	}
	return b.String(), spans
}

// Render is Tokens + Layout.
func Render(p *Program, sp Speller, l Layouter, ro RenderOpts) (string, map[string]Span) {
	return Layout(Tokens(p, sp, ro), l)
}

// PlainText renders with the plain spelling and layout.
func PlainText(p *Program) string {
	s, _ := Render(p, Plain{}, PlainLayout{}, RenderOpts{NoPadRewrites: true})
	return s + "\n"
}
