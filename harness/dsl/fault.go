package dsl

import (
	"encoding/json"
	"fmt"
	"strings"

	"pgregory.net/rapid"
)

// FaultMark is the span key of the offending declaration in a faulty program.
const FaultMark = "FAULT"

// Fault describes one injected ill-formedness.
type Fault struct {
	Class string   `json:"class"`
	Ident []string `json:"ident"` // identifiers / literals one of which the diagnostic must name (or a class keyword)
	Words []string `json:"words"` // class keywords (regular expressions, case-insensitive)
}

// FaultClasses lists the classes of Appendix C.
var FaultClasses = []string{
	"dup-packet", "dup-meta", "dup-option", "dup-field", "dup-field-inline", "dup-match-key", "dup-match-key-list", "second-root",
	"unknown-option", "bad-option-value", "bad-option-value-lexical",
	"len-nonroot", "len-inline", "len-twice",
	"undeclared-object", "undeclared-object-inline", "undeclared-match-target", "undeclared-key", "undeclared-len-target",
}

// Clone deep-copies a program.
func (p *Program) Clone() *Program {
	b, _ := json.Marshal(p)
	var q Program
	if err := json.Unmarshal(b, &q); err != nil {
		panic(err)
	}
	return &q
}

func pickIdx(t *rapid.T, n int, label string) int { return rapid.IntRange(0, n-1).Draw(t, label) }

// Inject returns a copy of p with one fault of the class at a drawn site, or nil when the
// class has no applicable site in p.
func Inject(t *rapid.T, p *Program, class string) (*Program, *Fault) {
	q := p.Clone()
	dupWords := []string{"duplicate", "already defined", "redefin", "more than once", "twice"}
	undecl := []string{"unknown", "undeclared", "undefined", "not found", "not declared", "no such", "does not exist"}
	fresh := "Zzq" + fmt.Sprint(rapid.IntRange(10, 99).Draw(t, "fresh"))
	switch class {
	case "dup-packet":
		var cands []int
		for i, k := range q.Packets {
			if !k.Root {
				cands = append(cands, i)
			}
		}
		if len(cands) == 0 {
			return nil, nil
		}
		src := q.Packets[cands[pickIdx(t, len(cands), "dp_src")]]
		dup := &Packet{Mark: FaultMark, Name: src.Name, Fields: []*Field{{Kind: KScalar, Type: "u8", Name: fresh}}}
		pos := rapid.IntRange(indexOfPacket(q, src.Name)+1, len(q.Packets)).Draw(t, "dp_pos")
		q.Packets = append(q.Packets[:pos], append([]*Packet{dup}, q.Packets[pos:]...)...)
		return q, &Fault{class, []string{src.Name}, dupWords}
	case "dup-meta":
		if len(q.Metas) == 0 {
			q.Metas = []*MetaBlock{{Name: fresh + "Meta", Entries: []MetaEntry{{Name: fresh, Kind: KScalar, Type: "u16", Doc: "d"}}}}
		}
		mb := q.Metas[0]
		src := mb.Entries[pickIdx(t, len(mb.Entries), "dm_src")]
		dup := MetaEntry{Mark: FaultMark, Name: src.Name, Kind: KScalar, Type: "u32", Doc: "dup"}
		if rapid.Bool().Draw(t, "dm_alias") {
			// the second declaration of the name is a reference declaration (`Entry Name,`)
			dup = MetaEntry{Mark: FaultMark, Name: src.Name, Alias: mb.Entries[pickIdx(t, len(mb.Entries), "dm_alias_of")].Name, Doc: "dup"}
			if rapid.Bool().Draw(t, "dm_alias_nodoc") {
				dup.Doc = ""
			}
		}
		if rapid.Bool().Draw(t, "dm_newblock") {
			q.Metas = append(q.Metas, &MetaBlock{Name: fresh + "Blk", Entries: []MetaEntry{dup}})
		} else {
			mb.Entries = append(mb.Entries, dup)
		}
		return q, &Fault{class, []string{src.Name}, dupWords}
	case "dup-option":
		type ov struct{ n, v string }
		var set []ov
		o := q.Opts
		for _, x := range []ov{{"LittleEndian", o.LittleEndian}, {"StringPrefixLenType", o.StrPrefix}, {"ArrayPrefixLenType", o.ArrPrefix}, {"JavaPackage", quoted(o.JavaPackage)}, {"GoPackage", quoted(o.GoPackage)}} {
			if x.v != "" {
				set = append(set, x)
			}
		}
		if len(set) == 0 {
			return nil, nil
		}
		x := set[pickIdx(t, len(set), "do_src")]
		q.Opts.Extra = append(q.Opts.Extra, ExtraOpt{Name: x.n, Val: x.v, Mark: FaultMark})
		return q, &Fault{class, []string{x.n}, dupWords}
	case "dup-field", "dup-field-inline":
		type site struct {
			k *Packet
			i int
		}
		var sites []site
		var walk func(k *Packet, inl bool)
		walk = func(k *Packet, inl bool) {
			for i, f := range k.Fields {
				if (class == "dup-field") != inl && f.Kind != KLen {
					sites = append(sites, site{k, i})
				}
				if f.Kind == KInline {
					walk(f.Inline, true)
				}
			}
		}
		for _, k := range q.Packets {
			walk(k, false)
		}
		if len(sites) == 0 {
			return nil, nil
		}
		s := sites[pickIdx(t, len(sites), "df_site")]
		name := s.k.Fields[s.i].Name
		dup := &Field{Mark: FaultMark, Kind: KScalar, Type: "u8", Name: name}
		pos := rapid.IntRange(s.i+1, len(s.k.Fields)).Draw(t, "df_pos")
		s.k.Fields = insert(s.k.Fields, pos, dup)
		return q, &Fault{class, []string{name}, dupWords}
	case "dup-match-key", "dup-match-key-list":
		var ms []*Field
		for _, k := range q.Packets {
			for _, f := range k.Fields {
				if f.Kind == KMatch {
					ms = append(ms, f)
				}
			}
		}
		if len(ms) == 0 {
			return nil, nil
		}
		m := ms[pickIdx(t, len(ms), "dk_m")]
		pr := m.Pairs[pickIdx(t, len(m.Pairs), "dk_p")]
		key := pr.Keys[pickIdx(t, len(pr.Keys), "dk_k")]
		dup := Pair{Mark: FaultMark, Keys: []string{key}, Target: pr.Target}
		if class == "dup-match-key-list" {
			other := freshKey(m, key)
			dup.List = true
			if rapid.Bool().Draw(t, "dk_first") {
				dup.Keys = []string{key, other}
			} else {
				dup.Keys = []string{other, key}
			}
		}
		m.Pairs = append(m.Pairs, dup)
		return q, &Fault{class, []string{strings.Trim(key, "\"")}, dupWords}
	case "second-root":
		root := -1
		for i, k := range q.Packets {
			if k.Root {
				root = i
			}
		}
		if root < 0 || root == len(q.Packets)-1 {
			// add a fresh root packet at the end
			q.Packets = append(q.Packets, &Packet{Mark: FaultMark, Root: true, Name: fresh + "Root", Fields: []*Field{{Kind: KScalar, Type: "u8", Name: fresh}}})
		} else {
			i := rapid.IntRange(root+1, len(q.Packets)-1).Draw(t, "sr_i")
			q.Packets[i].Root = true
			q.Packets[i].Mark = FaultMark
		}
		return q, &Fault{class, nil, []string{"multiple root", "more than one root", "second root", "only one root", "root.*already", "duplicate root"}}
	case "unknown-option":
		name := rapid.SampledFrom([]string{"Bogus", "littleEndian", "StringPrefixLen", "PadChar"}).Draw(t, "uo_name")
		q.Opts.Extra = append(q.Opts.Extra, ExtraOpt{Name: name, Val: "true", Mark: FaultMark})
		return q, &Fault{class, []string{name}, []string{"unknown option", "not allowed", "unsupported"}}
	case "bad-option-value":
		type ov struct{ n, v string }
		x := rapid.SampledFrom([]ov{{"StringPrefixLenType", "i16"}, {"ArrayPrefixLenType", "f32"}, {"StringPrefixLenType", "string"}, {"ArrayPrefixLenType", "16"},
			{"LittleEndian", "\"yes\""}, {"LittleEndian", "1"},
			// the diagnostic lists u8,u16,u32,u64 as the legal prefix types: the long spellings
			// that are aliases for FIELD types are not option values
			{"StringPrefixLenType", "uint8"}, {"ArrayPrefixLenType", "uint32"}, {"StringPrefixLenType", "uint16"}, {"ArrayPrefixLenType", "uint64"}, {"ArrayPrefixLenType", "int8"}, {"FixedStringPadFromLeft", "u8"}, {"FixedStringPadChar", "\"x\""}, {"FixedStringPadChar", "true"}}).Draw(t, "bv")
		// the option must not already be set (that would be a duplicate as well)
		clearOpt(&q.Opts, x.n)
		q.Opts.Extra = append(q.Opts.Extra, ExtraOpt{Name: x.n, Val: x.v, Mark: FaultMark})
		return q, &Fault{class, []string{x.n, strings.Trim(x.v, "\"")}, []string{"not allowed", "illegal", "invalid", "expected"}}
	case "bad-option-value-lexical":
		type ov struct{ n, v string }
		x := rapid.SampledFrom([]ov{{"LittleEndian", "maybe"}, {"StringPrefixLenType", "u24"}, {"FixedStringPadChar", "'x'"}, {"LittleEndian", "TRUE"}}).Draw(t, "bvl")
		clearOpt(&q.Opts, x.n)
		q.Opts.Extra = append(q.Opts.Extra, ExtraOpt{Name: x.n, Val: x.v, Mark: FaultMark})
		return q, &Fault{class, []string{x.n, strings.Trim(x.v, "'")}, []string{"not allowed", "illegal", "invalid", "expected", "expecting", "mismatched", "no viable", "extraneous", "token recognition"}}
	case "len-nonroot", "len-inline":
		// a length-of field needs a target declared after it
		type site struct {
			k   *Packet
			tgt int
		}
		var sites []site
		var walk func(k *Packet, inl bool, root bool)
		walk = func(k *Packet, inl, root bool) {
			for i, f := range k.Fields {
				if !f.Repeat && (f.Kind == KObj || f.Kind == KInline || f.Kind == KMatch) {
					if class == "len-inline" && inl || class == "len-nonroot" && !inl && !root {
						sites = append(sites, site{k, i})
					}
				}
				if f.Kind == KInline {
					walk(f.Inline, true, root)
				}
			}
		}
		for _, k := range q.Packets {
			walk(k, false, k.Root)
		}
		if len(sites) == 0 {
			return nil, nil
		}
		s := sites[pickIdx(t, len(sites), "ln_site")]
		lf := &Field{Mark: FaultMark, Kind: KLen, Type: "u16", Name: fresh, Target: s.k.Fields[s.tgt].Name, AttrPrefixed: class == "len-nonroot" && rapid.Bool().Draw(t, "ln_pre")}
		s.k.Fields = insert(s.k.Fields, rapid.IntRange(0, s.tgt).Draw(t, "ln_pos"), lf)
		return q, &Fault{class, nil, []string{"only.*root", "root packet", "not allowed", "lengthof"}}
	case "len-twice":
		root := q.RootPacket()
		if root == nil {
			return nil, nil
		}
		first := -1
		for i, f := range root.Fields {
			if f.Kind == KLen {
				first = i
			}
		}
		if first < 0 {
			return nil, nil
		}
		// a second length-of field after the first, with a target after itself when possible
		tgt := indexOf(root.Fields, root.Fields[first].Target)
		lf := &Field{Mark: FaultMark, Kind: KLen, Type: "u16", Name: fresh, Target: root.Fields[first].Target, AttrPrefixed: rapid.Bool().Draw(t, "lt_pre")}
		root.Fields = insert(root.Fields, rapid.IntRange(first+1, tgt).Draw(t, "lt_pos"), lf)
		return q, &Fault{class, []string{fresh}, []string{"duplicate", "more than one", "twice", "only one", "already"}}
	case "undeclared-object", "undeclared-object-inline":
		type site struct {
			k *Packet
		}
		var sites []site
		var walk func(k *Packet, inl bool)
		walk = func(k *Packet, inl bool) {
			if (class == "undeclared-object-inline") == inl {
				sites = append(sites, site{k})
			}
			for _, f := range k.Fields {
				if f.Kind == KInline {
					walk(f.Inline, true)
				}
			}
		}
		for _, k := range q.Packets {
			walk(k, false)
		}
		if len(sites) == 0 {
			return nil, nil
		}
		s := sites[pickIdx(t, len(sites), "uo_site")]
		typ := fresh + "Type"
		f := &Field{Mark: FaultMark, Kind: KObj, Ref: typ, Name: typ, Repeat: rapid.Bool().Draw(t, "uo_rep")}
		if rapid.Bool().Draw(t, "uo_named") {
			f.Name = fresh
		}
		s.k.Fields = insert(s.k.Fields, rapid.IntRange(0, len(s.k.Fields)).Draw(t, "uo_pos"), f)
		return q, &Fault{class, []string{typ}, undecl}
	case "undeclared-match-target":
		var ms []*Field
		for _, k := range q.Packets {
			for _, f := range k.Fields {
				if f.Kind == KMatch {
					ms = append(ms, f)
				}
			}
		}
		if len(ms) == 0 {
			return nil, nil
		}
		m := ms[pickIdx(t, len(ms), "um_m")]
		typ := fresh + "Type"
		m.Pairs = append(m.Pairs, Pair{Mark: FaultMark, Keys: []string{freshKey(m, "")}, Target: typ})
		return q, &Fault{class, []string{typ}, undecl}
	case "undeclared-key":
		// a match field whose key field does not exist
		var ks []*Packet
		for _, k := range q.Packets {
			ks = append(ks, k)
		}
		var tgt string
		for _, k := range q.Packets {
			if !k.Root {
				tgt = k.Name
			}
		}
		if tgt == "" {
			return nil, nil
		}
		k := ks[pickIdx(t, len(ks), "uk_k")]
		if k.Name == tgt {
			return nil, nil
		}
		f := &Field{Mark: FaultMark, Kind: KMatch, Name: fresh + "Body", Key: fresh + "Key", Pairs: []Pair{{Keys: []string{"1"}, Target: tgt}}}
		k.Fields = append(k.Fields, f)
		return q, &Fault{class, []string{fresh + "Key"}, undecl}
	case "undeclared-len-target":
		root := q.RootPacket()
		if root == nil {
			return nil, nil
		}
		for _, f := range root.Fields {
			if f.Kind == KLen {
				return nil, nil // would be "twice" as well
			}
		}
		lf := &Field{Mark: FaultMark, Kind: KLen, Type: "u16", Name: fresh, Target: fresh + "Target", AttrPrefixed: rapid.Bool().Draw(t, "ul_pre")}
		root.Fields = insert(root.Fields, rapid.IntRange(0, len(root.Fields)).Draw(t, "ul_pos"), lf)
		return q, &Fault{class, []string{fresh + "Target"}, undecl}
	}
	panic("fault class " + class)
}

func indexOfPacket(p *Program, name string) int {
	for i, k := range p.Packets {
		if k.Name == name {
			return i
		}
	}
	return -1
}

func clearOpt(o *Opts, name string) {
	switch name {
	case "LittleEndian":
		o.LittleEndian = ""
	case "StringPrefixLenType":
		o.StrPrefix = ""
	case "ArrayPrefixLenType":
		o.ArrPrefix = ""
	case "FixedStringPadFromLeft":
		o.PadLeft = ""
	case "FixedStringPadChar":
		o.PadChar = ""
	}
}

// freshKey returns a key literal of the table's kind that is not yet used (and differs from not).
func freshKey(m *Field, not string) string {
	used := map[string]bool{not: true}
	str := false
	for _, pr := range m.Pairs {
		for _, k := range pr.Keys {
			used[k] = true
			if strings.HasPrefix(k, "\"") {
				str = true
			}
		}
	}
	for i := 1; ; i++ {
		k := fmt.Sprint(i)
		if str {
			k = fmt.Sprintf("\"K%d\"", i)
		}
		if !used[k] {
			return k
		}
	}
}
